--------------------------- MODULE DrivingForce ---------------------------
(***************************************************************************)
(* The temperature-driving-force decomposition behind the area target      *)
(* (property C15: "the sum over enthalpy intervals of interval duty ...    *)
(* divided by the counter-current log-mean temperature difference").       *)
(*                                                                         *)
(* Transcribes OpenPinch/analysis/temperature_driving_force.py             *)
(* (get_temperature_driving_forces) together with                          *)
(* utils/miscellaneous.py interp_with_plateaus / make_monotonic, step by   *)
(* step:                                                                   *)
(*   Normalise   orient each curve to ascending heat load, remove offset   *)
(*   BuildGrid   union of the heat loads of both curves                    *)
(*   Interp      per curve and side: blocks of equal heat load are spread  *)
(*               by multiples of eps = tol/2 (make_monotonic) and handed   *)
(*               to np.interp; eps is kept as an INFINITESIMAL here: an    *)
(*               abscissa is a pair <<h, k>> = h + k eps, ordered          *)
(*               lexicographically, so the model takes exactly the         *)
(*               branches of the float code without its 5e-7 smear         *)
(*   DiscStep    the loop over "discontinuities" (vertical segments), one  *)
(*               iteration per step, from the last interval downwards,     *)
(*               each using the already adjusted value of the interval     *)
(*               above                                                     *)
(*                                                                         *)
(* Definitional side: a curve is the set of points of its polyline; at a   *)
(* heat load h the temperature seen from above, TUp (the value an interval *)
(* STARTING at h has), is the largest temperature on the curve at h, the   *)
(* one seen from below, TDown, the smallest.  Interval k of the merged     *)
(* grid has end differences  TUp_hot(h_k) - TUp_cold(h_k)  and             *)
(* TDown_hot(h_k+1) - TDown_cold(h_k+1), duties sum to the common span.    *)
(*                                                                         *)
(* The code's discontinuity loop replaces an end difference by the minimum *)
(* with the next interval's: that is the recorded finding KF-C15-gap seen  *)
(* at its origin.  DF_EndDifferences allows exactly that replacement       *)
(* (predicate KFGap) and nothing else; DF_Strict (no allowance) must be    *)
(* violated - the class is not empty.                                      *)
(*                                                                         *)
(* Mutant switches: SwapSides (start of an interval read from below),      *)
(* BlockPlain (equal heat loads not spread: np.interp on a non-increasing  *)
(* abscissa takes the last point for both sides).                          *)
(***************************************************************************)
EXTENDS Integers, Sequences, FiniteSets, TLC, Json, SequencesExt, FiniteSetsExt, Rational

CONSTANTS MaxSteps,        \* segments per curve
          StepOpt,         \* which set of <<dh, dt>> segment shapes (cfg files cannot hold tuples)
          HotBases,        \* lowest hot temperatures
          Offsets,         \* heat-load offsets of the cold curve as passed in
          SwapSides, BlockPlain, DoEmit

VARIABLES inp,     \* [hot, cold : Seq([h, t])] as passed by the caller (either orientation, cold curve offset)
          cur,     \* normalised curves
          grid,    \* merged heat-load grid (ascending)
          val,     \* [th1, th2, tc1, tc2 : Seq(Rat)]
          d2,      \* end differences at the interval ends, being adjusted
          i,       \* loop index of the discontinuity loop (1-based interval index)
          phase
vars == <<inp, cur, grid, val, d2, i, phase>>

---------------------------------------------------------------------------
(* segment shapes <<dh, dt>>: <<0, 1>> a vertical jump (temperature gap), <<1, 0>> an isothermal (latent) segment *)
Steps == IF StepOpt = 0 THEN {<<0, 1>>, <<1, 0>>, <<1, 1>>, <<2, 1>>}
         ELSE IF StepOpt = 1 THEN {<<0, 1>>, <<0, 2>>, <<1, 0>>, <<2, 0>>, <<1, 1>>, <<2, 1>>, <<1, 2>>}
         ELSE {<<1, 1>>, <<2, 1>>, <<1, 0>>}                 \* no vertical jumps: no discontinuity, strict equality everywhere
(* curves *)
RECURSIVE Build(_, _, _)
Build(h, t, steps) == IF steps = <<>> THEN <<[h |-> h, t |-> t]>>
                      ELSE <<[h |-> h, t |-> t]>> \o Build(h + Head(steps)[1], t + Head(steps)[2], Tail(steps))
Span(c) == c[Len(c)].h - c[1].h
Rev(s) == [k \in 1..Len(s) |-> s[Len(s) - k + 1]]
Shift(c, o) == [k \in 1..Len(c) |-> [c[k] EXCEPT !.h = @ + o]]

(* _normalise_curve *)
NormCurve(c) ==
  LET o == IF c[1].h > c[Len(c)].h THEN Rev(c) ELSE c
  IN  IF o[1].h # 0 THEN Shift(o, -o[1].h) ELSE o

(* make_monotonic: starts of blocks, lengths, position within the block, offsets in units of eps *)
Starts(c) == { k \in 1..Len(c) : k = 1 \/ c[k].h # c[k - 1].h }
BlockStart(c, k) == Max({ s \in Starts(c) : s <= k })
BlockLen(c, k) == LET s == BlockStart(c, k)
                      nxt == { x \in Starts(c) : x > s }
                  IN  (IF nxt = {} THEN Len(c) + 1 ELSE Min(nxt)) - s
Mono(c, side) ==
  [k \in 1..Len(c) |->
     LET w == k - BlockStart(c, k)   L == BlockLen(c, k) IN
     IF BlockPlain \/ L = 1 THEN <<c[k].h, 0>>
     ELSE IF side = "right" THEN <<c[k].h, -(L - 1 - w)>> ELSE <<c[k].h, w>>]
LexLe(a, b) == a[1] < b[1] \/ (a[1] = b[1] /\ a[2] <= b[2])

(* np.interp(x, xp, fp) for a grid abscissa x = <<x, 0>>: j = last index with xp[j] <= x *)
NpInterp(x, xp, c) ==
  LET below == { j \in 1..Len(xp) : LexLe(xp[j], <<x, 0>>) } IN
  IF below = {} THEN R(c[1].t)
  ELSE LET j == Max(below) IN
       IF j = Len(xp) THEN R(c[j].t)
       ELSE IF xp[j] = <<x, 0>> THEN R(c[j].t)
       ELSE IF xp[j][1] = xp[j + 1][1]           \* inside a spread block: proportion of the eps offsets
            THEN RInterp(R(0), R(xp[j][2]), R(c[j].t), R(xp[j + 1][2]), R(c[j + 1].t))
       ELSE RInterp(R(x), R(xp[j][1]), R(c[j].t), R(xp[j + 1][1]), R(c[j + 1].t))
InterpSide(c, x, side) ==
  IF Len(c) = 1 THEN R(c[1].t) ELSE NpInterp(x, Mono(c, side), c)

Disc(c) == { c[k].h : k \in { k \in 2..Len(c) : c[k].h = c[k - 1].h } }

---------------------------------------------------------------------------
(* definitional *)
OnCurve(c, x) ==
  UNION { IF c[k].h = c[k + 1].h
             THEN (IF c[k].h = x THEN {R(c[k].t), R(c[k + 1].t)} ELSE {})
          ELSE IF c[k].h <= x /\ x <= c[k + 1].h
             THEN {RInterp(R(x), R(c[k].h), R(c[k].t), R(c[k + 1].h), R(c[k + 1].t))}
          ELSE {} : k \in 1..(Len(c) - 1) }
TUp(c, x) == RMaxSet(OnCurve(c, x))
TDown(c, x) == RMinSet(OnCurve(c, x))
NInt == Len(grid) - 1
DefD1(k) == RSub(TUp(cur.hot, grid[k]), TUp(cur.cold, grid[k]))
DefD2(k) == RSub(TDown(cur.hot, grid[k + 1]), TDown(cur.cold, grid[k + 1]))
AllDisc == Disc(cur.hot) \cup Disc(cur.cold)
KFGap(k) == k < NInt /\ grid[k + 1] \in AllDisc /\ RLt(d2[k], DefD2(k)) /\ d2[k] = d2[k + 1]

---------------------------------------------------------------------------
CurveSet(bases) ==
  { Build(0, b, s) : b \in bases, s \in UNION { [1..n -> Steps] : n \in 1..MaxSteps } }

Init ==
  /\ \E hc \in CurveSet(HotBases), cc \in CurveSet({0}), o \in Offsets, desc \in BOOLEAN :
        /\ Span(hc) = Span(cc) /\ Span(hc) > 0
        /\ inp = [hot |-> IF desc THEN Rev(hc) ELSE hc, cold |-> Shift(IF desc THEN Rev(cc) ELSE cc, o)]
  /\ cur = <<>> /\ grid = <<>> /\ val = <<>> /\ d2 = <<>> /\ i = 0 /\ phase = "start"

Normalise ==
  /\ phase = "start"
  /\ cur' = [hot |-> NormCurve(inp.hot), cold |-> NormCurve(inp.cold)]
  /\ phase' = "norm" /\ UNCHANGED <<inp, grid, val, d2, i>>

BuildGrid ==
  /\ phase = "norm"
  /\ grid' = SetToSortSeq({ cur.hot[k].h : k \in 1..Len(cur.hot) } \cup { cur.cold[k].h : k \in 1..Len(cur.cold) }, LAMBDA a, b : a < b)
  /\ phase' = "grid" /\ UNCHANGED <<inp, cur, val, d2, i>>

Interp ==
  /\ phase = "grid"
  /\ LET n == Len(grid) - 1
         s1 == IF SwapSides THEN "left" ELSE "right"
         v == [th1 |-> [k \in 1..n |-> InterpSide(cur.hot, grid[k], s1)],
               th2 |-> [k \in 1..n |-> InterpSide(cur.hot, grid[k + 1], "left")],
               tc1 |-> [k \in 1..n |-> InterpSide(cur.cold, grid[k], s1)],
               tc2 |-> [k \in 1..n |-> InterpSide(cur.cold, grid[k + 1], "left")]]
     IN  /\ val' = v
         /\ d2' = [k \in 1..n |-> RSub(v.th2[k], v.tc2[k])]
         /\ i' = n - 1                                        \* range(len - 2, -1, -1), 1-based
  /\ phase' = (IF AllDisc = {} THEN "done" ELSE "disc")
  /\ UNCHANGED <<inp, cur, grid>>

DiscStep ==
  /\ phase = "disc"
  /\ IF i < 1 \/ i > NInt - 1
       THEN phase' = "done" /\ UNCHANGED <<d2, i>>
       ELSE /\ d2' = IF grid[i + 1] \in AllDisc THEN [d2 EXCEPT ![i] = RMin(d2[i], d2[i + 1])] ELSE d2
            /\ i' = i - 1
            /\ UNCHANGED phase
  /\ UNCHANGED <<inp, cur, grid, val>>

Next == Normalise \/ BuildGrid \/ Interp \/ DiscStep
Spec == Init /\ [][Next]_vars

---------------------------------------------------------------------------
Done == phase = "done"
ImplD1(k) == RSub(val.th1[k], val.tc1[k])

DF_Normalised == phase # "start" =>
  /\ cur.hot[1].h = 0 /\ cur.cold[1].h = 0
  /\ \A k \in 1..(Len(cur.hot) - 1) : cur.hot[k].h <= cur.hot[k + 1].h /\ cur.hot[k].t <= cur.hot[k + 1].t
  /\ \A k \in 1..(Len(cur.cold) - 1) : cur.cold[k].h <= cur.cold[k + 1].h /\ cur.cold[k].t <= cur.cold[k + 1].t
DF_GridSpansTheDuty == Done =>
  /\ grid[1] = 0 /\ grid[Len(grid)] = Span(cur.hot)
  /\ \A k \in 1..NInt : grid[k] < grid[k + 1]
DF_Temperatures == Done => \A k \in 1..NInt :
  /\ val.th1[k] = TUp(cur.hot, grid[k]) /\ val.tc1[k] = TUp(cur.cold, grid[k])
  /\ val.th2[k] = TDown(cur.hot, grid[k + 1]) /\ val.tc2[k] = TDown(cur.cold, grid[k + 1])
DF_EndDifferences == Done => \A k \in 1..NInt :
  /\ ImplD1(k) = DefD1(k)
  /\ d2[k] = DefD2(k) \/ KFGap(k)
DF_Strict == Done => \A k \in 1..NInt : d2[k] = DefD2(k)         \* must be violated (KF-C15-gap at its origin)
DF_OnlyShortens == Done => \A k \in 1..NInt : RLe(d2[k], DefD2(k))   \* the adjustment can only over-estimate the area

EmitCase == (DoEmit /\ Done) =>
  PrintT(<<"CASE", ToJson([hot |-> [k \in 1..Len(inp.hot) |-> <<inp.hot[k].h, inp.hot[k].t>>],
                           cold |-> [k \in 1..Len(inp.cold) |-> <<inp.cold[k].h, inp.cold[k].t>>],
                           grid |-> grid,
                           th1 |-> [k \in 1..NInt |-> TUp(cur.hot, grid[k])], th2 |-> [k \in 1..NInt |-> TDown(cur.hot, grid[k + 1])],
                           tc1 |-> [k \in 1..NInt |-> TUp(cur.cold, grid[k])], tc2 |-> [k \in 1..NInt |-> TDown(cur.cold, grid[k + 1])],
                           implD2 |-> d2,
                           kf |-> [k \in 1..NInt |-> KFGap(k)]])>>)
=============================================================================
