--------------------------- MODULE HeatExchanger ---------------------------
(***************************************************************************)
(* Effectiveness-NTU and LMTD relations (OpenPinch/utils/heat_exchanger.py)*)
(* property C20.                                                           *)
(*                                                                         *)
(* Part 1 (model checked): the arrangement dispatch of HX_Eff / HX_NTU as  *)
(* a small machine  label form -> normalisation -> branch;  invariant:     *)
(* both label forms of every arrangement reach that arrangement's own      *)
(* branch in both functions (never the counter-flow fall-through, never    *)
(* the -1 sentinel).  Switch Normalise = FALSE reproduces the defect fixed *)
(* by /repo commit 88b732c.                                                *)
(*                                                                         *)
(* Part 2 (trace validation): the real functions are evaluated on a grid   *)
(* (8 arrangements x 2 label forms x NTU = k/4 x c in {0,1/4,..,1} x       *)
(* passes 1..4) and TLC judges the recorded values, in fixed point:        *)
(* label-form independence, range, monotonicity in NTU, the c = 0 limit    *)
(* and the counter-flow / parallel-flow closed forms against an exp table  *)
(* that TLC itself verifies (ExpTableOK), the counter-flow bound, and the  *)
(* NTU(eff(NTU)) round trip; LMTD: bounds, symmetry, refusal.              *)
(***************************************************************************)
EXTENDS Integers, Sequences, FiniteSets, TLC, Json, IOUtils, SequencesExt, FiniteSetsExt

CONSTANTS Normalise, HasTrace

Arr == {"CF", "PF", "CrFUU", "CrFMM", "CrFMUmax", "CrFMUmin", "ShellTube", "CondEvap"}
Forms == {"member", "text"}
(* before the repair: these three were compared with the enum's TEXT, the other five with the MEMBER *)
ByText == {"CF", "PF", "ShellTube"}

VARIABLES arr, form, fn, stage, branch, l
vars == <<arr, form, fn, stage, branch, l>>

Data == IF HasTrace THEN JsonDeserialize(IOEnv.TRACE_FILE) ELSE [E |-> <<>>, series |-> <<>>, lmtd |-> <<>>]
Series == Data.series
Lm == Data.lmtd

---------------------------------------------------------------------------
(* Part 1: dispatch *)
DInit == /\ arr \in Arr /\ form \in Forms /\ fn \in {"HX_Eff", "HX_NTU"}
         /\ stage = "called" /\ branch = "none" /\ l = 1
DNormalise == /\ stage = "called"
              /\ stage' = "normalised"
              /\ form' = IF Normalise THEN "member" ELSE form      \* _arrangement(): text -> member
              /\ UNCHANGED <<arr, fn, branch, l>>
DBranch == /\ stage = "normalised"
           /\ stage' = "done"
           /\ branch' = IF Normalise THEN arr                      \* all comparisons against members
                        ELSE IF (arr \in ByText /\ form = "text") \/ (arr \notin ByText /\ form = "member") THEN arr
                        ELSE IF fn = "HX_Eff" THEN "CF" ELSE "sentinel"   \* else-branch: counter-flow / -1
           /\ UNCHANGED <<arr, form, fn, l>>
C20_Dispatch == stage = "done" => branch = arr

---------------------------------------------------------------------------
(* Part 2: exp table, verified by TLC itself.  E[k+1] ~ S * exp(-k/16) *)
S == 10000
E == Data.E
Ex(k) == IF k + 1 <= Len(E) THEN E[k + 1] ELSE 0
AbsI(x) == IF x < 0 THEN -x ELSE x
ExpTableOK ==
  ~HasTrace \/
  /\ Ex(0) = S
  /\ \A i \in 0..40 : \A j \in 0..40 : AbsI(Ex(i + j) * S - Ex(i) * Ex(j)) <= 2 * S      \* semigroup law within 2 ulp
  /\ LET x1 == 16 IN      \* exp(-1/16) inside its alternating Taylor bracket 1 - x + x^2/2 - x^3/6 < e^-x < 1 - x + x^2/2
     /\ 6 * x1 * x1 * x1 * Ex(1) >= S * (6 * x1 * x1 * x1 - 6 * x1 * x1 + 3 * x1 - 1) - 6 * x1 * x1 * x1
     /\ 2 * x1 * x1 * Ex(1) <= S * (2 * x1 * x1 - 2 * x1 + 1) + 2 * x1 * x1
  /\ \A k \in 0..(Len(E) - 2) : Ex(k) >= Ex(k + 1)
ASSUME ExpTableOK

(* a series: [arr, c4, passes, n4: seq of NTU*4, effM, effT, backM, backT: seq (x 1e6), cf: seq] *)
M == 1000000
TolE == 400          \* 4e-4: exp table resolution (1e-4) through the closed forms
TolR == 200          \* 2e-4 on the NTU round trip (the cross-flow inversions are numerical, eps = 1e-5 in eff)
(* NTU values reachable by the arrangement: the both-mixed cross-flow effectiveness has a maximum in NTU   *)
(* (its limit is 1/(1+c)); only the rising branch is reachable by HX_NTU.  All other arrangements: all NTU. *)
Reach(s, i) == s.arr # "CrFMM" \/ \A j \in 1..(i - 1) : s.effM[j + 1] >= s.effM[j]

(* the NTU -> eff -> NTU direction is ill-conditioned AT the maximum itself: require the curve to be still rising *)
ReachStrict(s, i) == s.arr # "CrFMM" \/ (i < Len(s.n4) /\ (s.effM[i + 1] - s.effM[i]) * 1000 >= s.ntuM[i + 1] - s.ntuM[i])
(* (slope >= 1e-3 per unit NTU: the numerical inversion resolves eff to 1e-5, i.e. NTU to 1e-5/slope) *)

SeriesFails(s) ==
  LET n == Len(s.n4)
      P == s.passes
  IN
  (IF \A i \in 1..n : s.effM[i] = s.effT[i] /\ s.backM[i] = s.backT[i] THEN {} ELSE {"C20.label_form_independent"})
  \cup (IF \A i \in 1..n : 0 <= s.effM[i] /\ s.effM[i] <= M THEN {} ELSE {"C20.effectiveness_in_unit_interval"})
  \cup (IF \A i \in 1..(n - 1) : Reach(s, i + 1) => s.effM[i + 1] >= s.effM[i] - 1 THEN {} ELSE {"C20.nondecreasing_in_NTU"})
  \cup (IF \A i \in 1..n : s.effM[i] <= s.cf[i] + 2 THEN {} ELSE {"C20.not_above_counterflow"})
  \cup (IF s.c4 # 0 \/ \A i \in 1..n : AbsI(s.effM[i] - (M - 100 * Ex(4 * s.n4[i]))) <= TolE THEN {} ELSE {"C20.zero_capacity_ratio_limit"})
  \cup (IF \A i \in 1..n : (s.reach[i] /\ Reach(s, i)) =>
              /\ AbsI(s.effBack[i] - s.effM[i]) <= 50                              \* eff(NTU(eff)) = eff  (5e-5)
              /\ (ReachStrict(s, i) => AbsI(s.backM[i] - s.ntuM[i]) <= TolR + s.ntuM[i] \div 500)   \* NTU(eff(NTU)) = NTU  (2e-4 + 0.2 %)
        THEN {} ELSE {"C20.round_trip"})
  \cup (IF s.arr = "CF" /\ P = 1 /\ s.c4 < 4 /\ s.c4 >= 0
        THEN (IF \A i \in 1..n :
                   LET e == Ex(s.n4[i] * (4 - s.c4))                    \* exp(-NTU (1 - c)),  NTU(1-c) = n4 (4 - c4) / 16
                       e4 == s.effM[i] \div 100                          \* effectiveness at the table's 1e-4 scale (32-bit products)
                   IN  AbsI(e4 * (4 * S - s.c4 * e) - S * 4 * (S - e)) <= 4 * 4 * S
              THEN {} ELSE {"C20.counterflow_closed_form"})
        ELSE {})
  \cup (IF s.arr = "PF" /\ P = 1 /\ s.c4 >= 0
        THEN (IF \A i \in 1..n :
                   LET e == Ex(s.n4[i] * (4 + s.c4))
                       e4 == s.effM[i] \div 100
                   IN  AbsI(e4 * (4 + s.c4) * S - S * 4 * (S - e)) <= 4 * 8 * S
              THEN {} ELSE {"C20.parallel_closed_form"})
        ELSE {})

(* LMTD: d1, d2 in units of 0.1 K (integers), L10 = LMTD in 0.01 K, rounded *)
LmtdFails(r) ==
  IF r.fine THEN     \* micro-kelvin resolution, nearly equal differences: the smaller difference and the mean are a few units apart
    (IF Min({r.d1, r.d2}) - 1 <= r.L /\ 2 * r.L <= r.d1 + r.d2 + 2 THEN {} ELSE {"C20.lmtd_between_min_and_mean"})
    \cup (IF r.L = r.Lswap THEN {} ELSE {"C20.lmtd_symmetric"})
  ELSE IF r.d1 <= 0 \/ r.d2 <= 0 THEN (IF r.refused THEN {} ELSE {"C20.lmtd_refuses_nonpositive"})
  ELSE IF r.refused THEN {"C20.lmtd_defined_for_positive"}
  ELSE
    (IF 10 * Min({r.d1, r.d2}) - 1 <= r.L /\ 2 * r.L <= 10 * (r.d1 + r.d2) + 2 THEN {} ELSE {"C20.lmtd_between_min_and_mean"})
    \cup (IF r.L = r.Lswap THEN {} ELSE {"C20.lmtd_symmetric"})
    \cup (IF r.L = r.Lts THEN {} ELSE {"C20.lmtd_from_temperatures_consistent"})
    (* the documented sequence forms: the same pair inside list / array arguments that mix tied and untied pairs, and with one   *)
    (* argument a scalar (either one): the value of the pair does not depend on the company it is evaluated in                 *)
    \cup (IF \A i \in 1..Len(r.Lforms) : r.Lforms[i] = r.L THEN {} ELSE {"C20.lmtd_same_in_sequence_forms"})
    \cup (IF r.d1 # r.d2 \/ r.L = 10 * r.d1 THEN {} ELSE {"C20.lmtd_equal_differences"})
    (* Carlson / Polya bracket without roots:  G^(2/3) A^(1/3) <= L <= (2G + A)/3,  G = sqrt(d1 d2), A = (d1+d2)/2 *)
    \cup (IF 2 * (r.L + 1) * (r.L + 1) * (r.L + 1) >= 1000 * r.d1 * r.d2 * (r.d1 + r.d2) THEN {} ELSE {"C20.lmtd_lower_bracket"})
    \cup (IF 6 * r.L <= 10 * (r.d1 + r.d2) + 6
             \/ (6 * r.L - 10 * (r.d1 + r.d2) - 6) * (6 * r.L - 10 * (r.d1 + r.d2) - 6) <= 1600 * r.d1 * r.d2
          THEN {} ELSE {"C20.lmtd_upper_bracket"})

TInit == /\ l = 1 /\ arr = "CF" /\ form = "member" /\ fn = "trace" /\ stage = "trace" /\ branch = "none"
TNext == /\ stage = "trace"
         /\ l <= Len(Series) + Len(Lm)
         /\ LET f == IF l <= Len(Series) THEN SeriesFails(Series[l]) ELSE LmtdFails(Lm[l - Len(Series)])
                id == IF l <= Len(Series) THEN Series[l].id ELSE Lm[l - Len(Series)].id
            IN  f = {} \/ PrintT(<<"VERDICT", ToJson([id |-> id, fails |-> SetToSeq(f)])>>)
         /\ l' = l + 1
         /\ UNCHANGED <<arr, form, fn, stage, branch>>

Init == IF HasTrace THEN TInit ELSE DInit
Next == DNormalise \/ DBranch \/ TNext
Spec == Init /\ [][Next]_vars
TraceAccepted == ~HasTrace \/ TLCGet("stats").diameter - 1 = Len(Series) + Len(Lm)
=============================================================================
