----------------------- MODULE MC_ServiceHistoryInd -----------------------
(* Apalache instance: constants as definitions; mutant switches overridden per run by --cinit-free copies below *)
EXTENDS Integers, FiniteSets

VARIABLES
  \* @type: Set(Int);
  acc,
  \* @type: Int -> Str;
  model,
  \* @type: Int -> Str;
  nested,
  \* @type: { loaded: Int, ch: Str, cache: Int };
  w,
  \* @type: { prob: Int, foreign: Set(Int), cached: Bool, kind: Str };
  res

Probs == {1, 2, 3}
Channels == {"dict", "units", "model", "json", "csvdir", "csvpair", "xlsx"}
SharedGraphDefault == FALSE
MutatesModel == FALSE
LoadKeepsCache == FALSE
MutatesNested == FALSE

INSTANCE ServiceHistoryInd

(* any state satisfying the invariant (not only reachable ones) *)
IndInit ==
  /\ acc \in SUBSET Probs
  /\ model \in [Probs -> {"pristine", "mutated"}]
  /\ nested \in [Probs -> {"pristine", "mutated"}]
  /\ w \in [loaded: Probs \cup {0}, ch: Channels \cup {"none"}, cache: Probs \cup {0}]
  /\ res \in [prob: Probs \cup {0}, foreign: SUBSET Probs, cached: BOOLEAN, kind: Kinds]
  /\ IndInv
=============================================================================
