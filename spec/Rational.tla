--------------------------- MODULE Rational ---------------------------
(* Exact rational arithmetic for TLC.  A rational is a normalised pair  *)
(* <<n, d>> with d > 0 and gcd(|n|, d) = 1, so equality is structural.   *)
(* TLC integers are 32 bit and overflow is a hard error, never silent.  *)
EXTENDS Integers, Sequences

Abs(x) == IF x < 0 THEN -x ELSE x

RECURSIVE Gcd(_, _)
Gcd(a, b) == IF b = 0 THEN a ELSE Gcd(b, a % b)

Norm(n, d) ==
  IF n = 0 THEN <<0, 1>>
  ELSE LET s == IF d < 0 THEN -1 ELSE 1
           g == Gcd(Abs(n), Abs(d))
       IN  <<(s * n) \div g, (s * d) \div g>>

R(n)        == <<n, 1>>
IsRat(q)    == q \in Seq(Int) /\ Len(q) = 2 /\ q[2] > 0
RAdd(a, b)  == Norm(a[1] * b[2] + b[1] * a[2], a[2] * b[2])
RNeg(a)     == <<-a[1], a[2]>>
RSub(a, b)  == RAdd(a, RNeg(b))
RMul(a, b)  == Norm(a[1] * b[1], a[2] * b[2])
RDiv(a, b)  == Norm(a[1] * b[2], a[2] * b[1])          \* b # 0
RLt(a, b)   == a[1] * b[2] < b[1] * a[2]
RLe(a, b)   == a[1] * b[2] <= b[1] * a[2]
RGt(a, b)   == RLt(b, a)
RGe(a, b)   == RLe(b, a)
REq(a, b)   == a[1] * b[2] = b[1] * a[2]
RMin(a, b)  == IF RLe(a, b) THEN a ELSE b
RMax(a, b)  == IF RLe(a, b) THEN b ELSE a
RAbs(a)     == <<Abs(a[1]), a[2]>>
RZero       == <<0, 1>>
RIsZero(a)  == a[1] = 0
RPos(a)     == a[1] > 0
RNegv(a)    == a[1] < 0
RMulI(a, k) == Norm(a[1] * k, a[2])
RDivI(a, k) == Norm(a[1], a[2] * k)                     \* k # 0

(* y at abscissa x on the line through (x1,y1),(x2,y2), x1 # x2 *)
RInterp(x, x1, y1, x2, y2) ==
  RAdd(y1, RMul(RSub(y2, y1), RDiv(RSub(x, x1), RSub(x2, x1))))

RECURSIVE RSumSeq(_)
RSumSeq(s) == IF s = <<>> THEN RZero ELSE RAdd(Head(s), RSumSeq(Tail(s)))

RECURSIVE RMinSeq(_)
RMinSeq(s) == IF Len(s) = 1 THEN s[1] ELSE RMin(Head(s), RMinSeq(Tail(s)))
RECURSIVE RMaxSeq(_)
RMaxSeq(s) == IF Len(s) = 1 THEN s[1] ELSE RMax(Head(s), RMaxSeq(Tail(s)))

(* Min / Max of a non-empty finite set of rationals *)
RMinSet(S) == CHOOSE a \in S : \A b \in S : RLe(a, b)
RMaxSet(S) == CHOOSE a \in S : \A b \in S : RLe(b, a)
=======================================================================
