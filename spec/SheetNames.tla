----------------------------- MODULE SheetNames -----------------------------
(***************************************************************************)
(* _sanitize_sheet_name / _unique_sheet_name (OpenPinch/utils/export.py),  *)
(* the sheet-name clause of C16.  Names are sequences of one-character     *)
(* strings; the allocator is a machine whose state is the set of names     *)
(* already used in the workbook; one action per allocated sheet.           *)
(***************************************************************************)
EXTENDS Integers, Sequences, FiniteSets, TLC, SequencesExt, Json

CONSTANTS MaxLen, MaxAllocs, NameIds, DoEmit,
          TrimOnce      \* mutant: the stem is trimmed once for a 4-character suffix (seeded change C16a)

VARIABLES used, hist, last
vars == <<used, hist, last>>

Forbidden == {":", "/", "?", "*", "\\", "[", "]"}
Chars(str) == str    \* names are given as sequences already
P25 == [i \in 1..25 |-> "P"]
Name(i) ==
  CASE i = 1 -> P25 \o <<"a", "b", "c", "d", "e", "f", "g", "h">>          \* 33 chars: truncated
    [] i = 2 -> P25 \o <<"a", "b", "c", "d", "e", "f", "x", "y">>          \* same first 31 chars as 1
    [] i = 3 -> <<"Z", "1", "/", "D", "I">>                                  \* forbidden character
    [] i = 4 -> <<"Z", "1", "_", "D", "I">>                                  \* collides with 3 after sanitising
    [] i = 5 -> <<" ", "'", " ">>                                            \* nothing left -> "Sheet"
    [] i = 6 -> <<"S", "h", "e", "e", "t">>
    [] i = 7 -> P25 \o <<"a", "b", "c", "d", "e", "'", "g">>               \* apostrophe lands on the last kept position
    [] i = 8 -> <<"a", ":", "[", "b", "]", " ", " ">>
    [] OTHER -> <<"n">>

(* str.strip(): leading and trailing blanks *)
RECURSIVE LStrip(_), RStrip(_), RStripApos(_)
LStrip(s) == IF s # <<>> /\ s[1] = " " THEN LStrip(Tail(s)) ELSE s
RStrip(s) == IF s # <<>> /\ s[Len(s)] = " " THEN RStrip(SubSeq(s, 1, Len(s) - 1)) ELSE s
RStripApos(s) == IF s # <<>> /\ s[Len(s)] = "'" THEN RStripApos(SubSeq(s, 1, Len(s) - 1)) ELSE s
Sanitize(s) ==
  LET c == RStripApos(RStrip(LStrip([i \in 1..Len(s) |-> IF s[i] \in Forbidden THEN "_" ELSE s[i]])))
  IN  IF c = <<>> THEN <<"S", "h", "e", "e", "t">> ELSE c

Digits(n) == IF n < 10 THEN <<ToString(n)>> ELSE <<ToString(n \div 10), ToString(n % 10)>>
Suffix(n) == <<" ", "(">> \o Digits(n) \o <<")">>
Take(s, n) == SubSeq(s, 1, IF n < Len(s) THEN (IF n < 0 THEN 0 ELSE n) ELSE Len(s))

RECURSIVE Probe(_, _, _)
Probe(cand, u, idx) ==
  LET suf == Suffix(idx)
      trimmed == IF TrimOnce THEN Take(cand, MaxLen - 4)
                 ELSE IF Len(cand) + Len(suf) > MaxLen THEN Take(cand, MaxLen - Len(suf)) ELSE cand
      alt == trimmed \o suf
  IN  IF alt \notin u THEN alt ELSE Probe(cand, u, idx + 1)
Unique(base, u) ==
  LET cand0 == Take(Sanitize(base), MaxLen)
      cand == IF cand0 = <<>> THEN <<"S", "h", "e", "e", "t">> ELSE cand0
  IN  IF cand \notin u THEN cand ELSE Probe(cand, u, 2)

Init == used = {} /\ hist = <<>> /\ last = <<>>
Alloc(i) == /\ Len(hist) < MaxAllocs
            /\ LET nm == Unique(Name(i), used) IN
               /\ last' = nm
               /\ used' = used \cup {nm}
            /\ hist' = Append(hist, i)
Next == \E i \in NameIds : Alloc(i)
Spec == Init /\ [][Next]_vars

C16_Unique    == [][ last' \notin used ]_vars
C16_Length    == Len(last) <= MaxLen
C16_NoForbidden == \A i \in 1..Len(last) : last[i] \notin Forbidden
C16_NonEmpty  == hist # <<>> => last # <<>>

EmitCase == (DoEmit /\ Len(hist) = MaxAllocs) =>
              PrintT(<<"CASE", ToJson([hist |-> hist, names |-> [i \in 1..8 |-> Name(i)], used |-> SetToSeq(used), last |-> last])>>)
=============================================================================
