----------------------------- MODULE StreamColl -----------------------------
(***************************************************************************)
(* OpenPinch/classes/stream_collection.py under every sequence of add /    *)
(* add_many / remove / replace / set_sort_key / concatenate / index /      *)
(* iterate calls, interleaved with assignments to a member's sort          *)
(* attribute (property C19, second half).                                  *)
(*                                                                         *)
(* Members are stream objects with an identity (id), a name and two        *)
(* sortable attributes.  The collection is an insertion-ordered dictionary *)
(* key -> id plus the sort configuration.  Keys are <<name, n>> standing   *)
(* for "name" (n = 0) or "name_n"  -- kept as real strings, because a member  *)
(* whose own name is "a_1" clashes with the renamed key of a second "a".     *)
(***************************************************************************)
EXTENDS Integers, Sequences, FiniteSets, TLC, SequencesExt, FiniteSetsExt, Json

CONSTANTS Ids, Vals, MaxOps, DoEmit,
          CacheStale,     \* mutant: sorted view cached behind a dirty flag set only by the mutators (defect fixed by 8a4dd4c)
          ReplaceOverwrites, \* mutant: replace() re-keys by name with plain assignment (defect fixed by 5d45b6e)
          RenameOffByOne  \* mutant: clash renaming tries the same suffix twice (would overwrite)

NameOf == <<"a", "a", "a_1", "a_2">>     \* id -> name: clashing names, and one that looks like a renamed key

VARIABLES obj,      \* id -> [name, ts, tt]   (the stream objects; mutable)
          coll,     \* sequence of <<key, id>> in dictionary insertion order
          other,    \* a second collection (operand for concatenation)
          sortBy, rev, cache, dirty,
          hist, obs
vars == <<obj, coll, other, sortBy, rev, cache, dirty, hist, obs>>

Keys(c) == { c[i][1] : i \in 1..Len(c) }
IdsOf(c) == [i \in 1..Len(c) |-> c[i][2]]
Lookup(c, k) == (CHOOSE i \in 1..Len(c) : c[i][1] = k)

(* add(stream, key=None, prevent_overwrite=True) *)
KeyStr(nm, n) == IF n = 0 THEN nm ELSE nm \o "_" \o ToString(n)      \* "name", "name_1", "name_2", ...
RECURSIVE FreshKey(_, _, _)
FreshKey(c, nm, n) ==
  LET k == KeyStr(nm, n) IN
  IF k \in Keys(c) THEN FreshKey(c, nm, n + 1) ELSE k
AddTo(c, id, nm) ==
  LET k == IF RenameOffByOne /\ nm \in Keys(c) /\ KeyStr(nm, 1) \in Keys(c) THEN KeyStr(nm, 1) ELSE FreshKey(c, nm, 0) IN
  IF k \in Keys(c) THEN [i \in 1..Len(c) |-> IF c[i][1] = k THEN <<k, id>> ELSE c[i]]   \* overwrite (mutant only)
  ELSE Append(c, <<k, id>>)

(* the sorted view: Python's sorted() is stable; reverse=True keeps the original order of equal keys *)
KeyOf(id) == IF sortBy = "ts" THEN obj[id].ts ELSE obj[id].tt
SortedIds(c, o, by, r) ==
  LET ids == IdsOf(c)
      val(j) == IF by = "ts" THEN o[ids[j]].ts ELSE o[ids[j]].tt
      pos == SetToSortSeq(1..Len(ids), LAMBDA a, b : IF val(a) # val(b) THEN (IF r THEN val(a) > val(b) ELSE val(a) < val(b)) ELSE a < b)
  IN  [j \in 1..Len(ids) |-> ids[pos[j]]]

View == IF CacheStale /\ ~dirty THEN cache ELSE SortedIds(coll, obj, sortBy, rev)

Init ==
  /\ \E f \in [Ids -> Vals] :
       obj = [i \in Ids |-> [name |-> NameOf[i], ts |-> f[i], tt |-> Min(Vals)]]
  /\ coll = <<>> /\ other = <<>>
  /\ sortBy = "ts" /\ rev = TRUE /\ cache = <<>> /\ dirty = TRUE
  /\ hist = <<>> /\ obs = <<>>

Step(name, arg) == /\ Len(hist) < MaxOps /\ hist' = Append(hist, <<name, arg>>)

Add == \E id \in Ids :
         /\ id \notin { coll[i][2] : i \in 1..Len(coll) }
         /\ Step("add", id)
         /\ coll' = AddTo(coll, id, obj[id].name)
         /\ dirty' = TRUE /\ obs' = <<"len", Len(coll')>>
         /\ UNCHANGED <<obj, other, sortBy, rev, cache>>
AddOther == \E id \in Ids :
         /\ id \notin { other[i][2] : i \in 1..Len(other) } \cup { coll[i][2] : i \in 1..Len(coll) }
         /\ Step("add_other", id)
         /\ other' = AddTo(other, id, obj[id].name)
         /\ obs' = <<"len_other", Len(other')>>
         /\ UNCHANGED <<obj, coll, sortBy, rev, cache, dirty>>
RemoveKey == \E i \in 1..Len(coll) :
         /\ Step("remove", coll[i][1])
         /\ coll' = [j \in 1..(Len(coll) - 1) |-> IF j < i THEN coll[j] ELSE coll[j + 1]]
         /\ dirty' = TRUE /\ obs' = <<"len", Len(coll')>>
         /\ UNCHANGED <<obj, other, sortBy, rev, cache>>
(* replace(dict): the new content are the members of `other` *)
Replace ==                                   \* `other` may be empty: replace({}) empties the collection (seeded change C19c)
         /\ Step("replace", IdsOf(other))
         /\ coll' = IF ReplaceOverwrites
                    THEN LET RECURSIVE F(_, _)
                             F(j, acc) == IF j > Len(other) THEN acc
                                          ELSE LET k == obj[other[j][2]].name IN
                                               F(j + 1, IF k \in Keys(acc)
                                                        THEN [i \in 1..Len(acc) |-> IF acc[i][1] = k THEN <<k, other[j][2]>> ELSE acc[i]]
                                                        ELSE Append(acc, <<k, other[j][2]>>))
                         IN  F(1, <<>>)
                    ELSE LET RECURSIVE G(_, _)
                             G(j, acc) == IF j > Len(other) THEN acc ELSE G(j + 1, AddTo(acc, other[j][2], obj[other[j][2]].name))
                         IN  G(1, <<>>)
         /\ dirty' = TRUE /\ obs' = <<"len", Len(coll')>>
         /\ UNCHANGED <<obj, other, sortBy, rev, cache>>
SetSortKey == \E by \in {"ts", "tt"}, r \in BOOLEAN :
         /\ Step("set_sort_key", <<by, r>>)
         /\ sortBy' = by /\ rev' = r /\ dirty' = TRUE /\ obs' = <<"none", 0>>
         /\ UNCHANGED <<obj, coll, other, cache>>
(* member setter: the collection is not told *)
SetMember == \E id \in Ids, v \in Vals :
         /\ Step("member_ts", <<id, v>>)
         /\ obj' = [obj EXCEPT ![id].ts = v]
         /\ obs' = <<"none", 0>>
         /\ UNCHANGED <<coll, other, sortBy, rev, cache, dirty>>
Iterate ==
         /\ Step("iterate", 0)
         /\ obs' = <<"order", View>>
         /\ cache' = View /\ dirty' = FALSE
         /\ UNCHANGED <<obj, coll, other, sortBy, rev>>
(* concatenation self + other: a NEW collection with default sort; observed by its keys / members *)
Concat ==
         /\ Step("concat", 0)
         /\ LET RECURSIVE G(_, _)
                G(src, acc) == IF src = <<>> THEN acc ELSE G(Tail(src), AddTo(acc, Head(src)[2], obj[Head(src)[2]].name))
                c3 == G(other, G(coll, <<>>))
            IN  obs' = <<"concat", IdsOf(c3)>>
         /\ UNCHANGED <<obj, coll, other, sortBy, rev, cache, dirty>>

Next == Add \/ AddOther \/ RemoveKey \/ Replace \/ SetSortKey \/ SetMember \/ Iterate \/ Concat
Spec == Init /\ [][Next]_vars

---------------------------------------------------------------------------
(* C19 statement *)
Members(c) == { c[i][2] : i \in 1..Len(c) }
NoDupKeys(c) == Cardinality(Keys(c)) = Len(c)

(* insertion never loses or silently replaces a member *)
C19_AddKeeps ==
  [][ (\E id \in Ids : hist' = Append(hist, <<"add", id>>)) =>
        /\ Members(coll) \subseteq Members(coll')
        /\ Cardinality(Members(coll')) = Cardinality(Members(coll)) + 1 ]_vars
C19_ReplaceKeeps ==
  [][ (Len(hist') > Len(hist) /\ hist'[Len(hist')][1] = "replace") => Members(coll') = Members(other) ]_vars
C19_Len == NoDupKeys(coll) /\ Cardinality(Members(coll)) = Len(coll)
(* iteration yields exactly the members, in sort-key order *)
Sorted(seq) == \A a, b \in 1..Len(seq) : a < b =>
                  (IF rev THEN KeyOf(seq[a]) >= KeyOf(seq[b]) ELSE KeyOf(seq[a]) <= KeyOf(seq[b]))
C19_Iterate ==
  (obs # <<>> /\ obs[1] = "order") =>
     /\ { obs[2][j] : j \in 1..Len(obs[2]) } = Members(coll)
     /\ Len(obs[2]) = Len(coll)
     /\ Sorted(obs[2])
C19_Concat ==
  (obs # <<>> /\ obs[1] = "concat") =>
     /\ { obs[2][j] : j \in 1..Len(obs[2]) } = Members(coll) \cup Members(other)
     /\ Len(obs[2]) = Len(coll) + Len(other)

EmitCase == (DoEmit /\ Len(hist) = MaxOps) =>
   PrintT(<<"CASE", ToJson([obj0 |-> [i \in Ids |-> obj[i]], hist |-> hist, keys |-> [i \in 1..Len(coll) |-> coll[i][1]],
                           ids |-> IdsOf(coll), order |-> SortedIds(coll, obj, sortBy, rev)])>>)
=============================================================================
