------------------------------ MODULE Pockets ------------------------------
(***************************************************************************)
(* get_GCC_without_pockets / get_seperated_gcc_heat_load_profiles          *)
(* (OpenPinch/analysis/gcc_manipulation.py), property C07.                 *)
(*                                                                         *)
(* The pocket sweep mutates the table while it iterates, so it is modelled *)
(* as a genuine multi-step machine: one action per loop iteration, with    *)
(* the code's own loop counter (fixed at loop entry), its own index        *)
(* variables (0-based, as in the code) and the row insertion of            *)
(* ProblemTable.insert_temperature_interval for a single interior value.   *)
(*                                                                         *)
(* Inputs are grand-composite shapes given directly as rows (T descending, *)
(* H >= 0), so any number of pockets, nested pockets, pockets closing on   *)
(* an existing row, pockets next to the pinch and threshold curves occur.  *)
(*                                                                         *)
(* The definitional side is the greatest monotone minorant evaluated as a  *)
(* FUNCTION of temperature; table and definition are compared at the union *)
(* of the table rows and of every level-crossing of the original curve.    *)
(***************************************************************************)
EXTENDS Integers, Sequences, FiniteSets, TLC, SequencesExt, FiniteSetsExt, Json, Rational

CONSTANTS
  MinRows, MaxRows,   \* shapes of MinRows..MaxRows rows
  HMax,               \* H values 0..HMax
  MinPeaks,           \* only shapes with at least this many interior strict local maxima (0 = all): many-pocket configurations
  DoEmit,
  StalePinch,         \* mutant: sweep keeps the stale pinch row after an insertion above the pinch (defect fixed by 5ea7bf0)
  SkipBetween,        \* mutant: rows between the pinches are not zeroed
  ExitOffByOne        \* mutant: pocket exit search stops one row early

VARIABLES shape, tab, phase, i, iters, hotLoc, coldLoc, pinchLoc, prof
vars == <<shape, tab, phase, i, iters, hotLoc, coldLoc, pinchLoc, prof>>

N == Len(tab)
Tat(k)  == tab[k + 1].T          \* 0-based accessors, as in the code
Hat(k)  == tab[k + 1].H
NPat(k) == tab[k + 1].NP

---------------------------------------------------------------------------
(* helpers shared with the code *)

(* ProblemTable.pinch_idx on column H, 0-based result *)
PinchIdx0(t) ==
  LET n  == Len(t)
      Z  == { k \in 0..(n-1) : RIsZero(t[k+1].H) }
      NZ == (0..(n-1)) \ Z
  IN  IF Z # {} /\ NZ # {}
      THEN LET fz == Min(Z)
               lz == Max(Z)
               rh == IF fz > 0 THEN fz ELSE Min(NZ) - 1
               rc == IF lz < n - 1 THEN lz ELSE Max(NZ) + 1
           IN  [h |-> rh, c |-> rc, valid |-> rh <= rc]
      ELSE [h |-> n - 1, c |-> 0, valid |-> FALSE]

(* insert_temperature_interval for ONE temperature x that lies within [T[k+1], T[k]]: *)
(* nothing if x is (within tolerance of) an existing row, else an interpolated row     *)
InsertOne(t, x) ==
  IF \E r \in 1..Len(t) : t[r].T = x THEN [tab |-> t, n |-> 0]
  ELSE LET lo == CHOOSE r \in 2..Len(t) : RLt(t[r].T, x) /\ RLt(x, t[r-1].T)
           u  == t[lo - 1]
           l  == t[lo]
           w  == RDiv(RSub(x, l.T), RSub(u.T, l.T))
           row == [T |-> x, H |-> RAdd(l.H, RMul(w, RSub(u.H, l.H))),
                            NP |-> RAdd(l.NP, RMul(w, RSub(u.NP, l.NP)))]
       IN  [tab |-> SubSeq(t, 1, lo - 1) \o <<row>> \o SubSeq(t, lo, Len(t)), n |-> 1]

(* linear_interpolation(xi, x1, x2, y1, y2) *)
LinInterp(xi, x1, x2, y1, y2) == RInterp(xi, x1, y1, x2, y2)

(* _pocket_exit_index *)
ExitIdx(i0, ploc, sgn) ==
  IF sgn > 0
  THEN LET hi == IF ExitOffByOne THEN ploc - 1 ELSE ploc
           C == { k \in (i0 + 1)..hi : RGt(Hat(i0), Hat(k)) }
       IN  IF C # {} THEN Min(C) - 1 ELSE ploc
  ELSE LET C == { k \in ploc..(i0 - 1) : RGt(Hat(i0), Hat(k)) }
       IN  IF C # {} THEN Max(C) + 1 ELSE ploc

SetNP(t, J, v) == [r \in 1..Len(t) |-> IF (r - 1) \in J THEN [t[r] EXCEPT !.NP = v] ELSE t[r]]

---------------------------------------------------------------------------
(* the machine *)

Peaks(f) == Cardinality({ j \in 2..(Len(f) - 1) : f[j - 1] < f[j] /\ f[j] > f[j + 1] })
Shapes == { f \in UNION { [1..n -> 0..HMax] : n \in MinRows..MaxRows } : MinPeaks = 0 \/ Peaks(f) >= MinPeaks }

Init ==
  /\ shape \in Shapes
  /\ tab = [j \in 1..Len(shape) |-> [T |-> R((Len(shape) - j + 1) * 100), H |-> R(shape[j]), NP |-> R(-1)]]
  /\ phase = "start"
  /\ i = 0 /\ iters = 0 /\ hotLoc = 0 /\ coldLoc = 0 /\ pinchLoc = 0
  /\ prof = <<>>

(* pt.col[NP] = pt.col[H]; pinch rows; rows between the pinches set to zero *)
Start ==
  /\ phase = "start"
  /\ LET t1 == [r \in 1..N |-> [tab[r] EXCEPT !.NP = tab[r].H]]
         p  == PinchIdx0(t1)
     IN  IF ~p.valid
         THEN /\ tab' = t1 /\ phase' = "profiles"
              /\ UNCHANGED <<hotLoc, coldLoc, i, iters, pinchLoc>>
         ELSE /\ tab' = IF p.h + 1 < p.c /\ ~SkipBetween
                        THEN SetNP(t1, (p.h + 1)..(p.c - 1), RZero) ELSE t1
              /\ hotLoc' = p.h /\ coldLoc' = p.c
              /\ phase' = "enterAbove"
              /\ UNCHANGED <<i, iters, pinchLoc>>
  /\ UNCHANGED <<shape, prof>>

EnterAbove ==
  /\ phase = "enterAbove"
  /\ IF ~RPos(Hat(0))                       \* H[0] < tol: no heating required
     THEN phase' = "enterBelow" /\ UNCHANGED <<i, iters, pinchLoc>>
     ELSE /\ i' = 0 /\ pinchLoc' = hotLoc /\ iters' = hotLoc       \* range(0, pinch_loc, 1)
          /\ phase' = IF hotLoc > 0 THEN "above" ELSE "enterBelow"
  /\ UNCHANGED <<shape, tab, hotLoc, coldLoc, prof>>

StepAbove ==
  /\ phase = "above"
  /\ IF RLt(Hat(i), Hat(i + 1))
     THEN LET i0   == i
              ex   == ExitIdx(i0, pinchLoc, 1)
              ins  == IF ex # pinchLoc
                      THEN InsertOne(tab, LinInterp(Hat(i0), Hat(ex), Hat(ex + 1), Tat(ex), Tat(ex + 1)))
                      ELSE [tab |-> tab, n |-> 0]
              ploc == IF StalePinch THEN pinchLoc ELSE pinchLoc + ins.n
              inew == ex + ins.n
          IN  /\ tab' = SetNP(ins.tab, (i0 + 1)..ex, Hat(i0))
              /\ hotLoc' = hotLoc + ins.n /\ coldLoc' = coldLoc + ins.n
              /\ pinchLoc' = ploc
              /\ i' = inew
              /\ iters' = iters - 1
              /\ phase' = IF ploc - inew <= 0 \/ iters - 1 = 0 THEN "enterBelow" ELSE "above"
     ELSE /\ i' = i + 1 /\ iters' = iters - 1
          /\ phase' = IF pinchLoc - (i + 1) <= 0 \/ iters - 1 = 0 THEN "enterBelow" ELSE "above"
          /\ UNCHANGED <<tab, hotLoc, coldLoc, pinchLoc>>
  /\ UNCHANGED <<shape, prof>>

EnterBelow ==
  /\ phase = "enterBelow"
  /\ IF ~RPos(Hat(N - 1))
     THEN phase' = "profiles" /\ UNCHANGED <<i, iters, pinchLoc>>
     ELSE /\ i' = N - 1 /\ pinchLoc' = coldLoc /\ iters' = (N - 1) - coldLoc
          /\ phase' = IF (N - 1) - coldLoc > 0 THEN "below" ELSE "profiles"
  /\ UNCHANGED <<shape, tab, hotLoc, coldLoc, prof>>

StepBelow ==
  /\ phase = "below"
  /\ IF RLt(Hat(i), Hat(i - 1))
     THEN LET i0   == i
              ex   == ExitIdx(i0, pinchLoc, -1)
              ins  == IF ex # pinchLoc
                      THEN InsertOne(tab, LinInterp(Hat(i0), Hat(ex), Hat(ex - 1), Tat(ex), Tat(ex - 1)))
                      ELSE [tab |-> tab, n |-> 0]
              i0n  == i0 + ins.n
              inew == ex - ins.n
          IN  /\ tab' = SetNP(ins.tab, (ex + 1)..(i0n - 1), Hat(i0))
              /\ i' = inew
              /\ iters' = iters - 1
              /\ phase' = IF inew - pinchLoc <= 0 \/ iters - 1 = 0 THEN "profiles" ELSE "below"
     ELSE /\ i' = i - 1 /\ iters' = iters - 1
          /\ phase' = IF (i - 1) - pinchLoc <= 0 \/ iters - 1 = 0 THEN "profiles" ELSE "below"
          /\ UNCHANGED tab
  /\ UNCHANGED <<shape, hotLoc, coldLoc, pinchLoc, prof>>

(* get_seperated_gcc_heat_load_profiles(H_net_actual = NP), process-stream branch *)
Profiles ==
  /\ phase = "profiles"
  /\ LET dh   == [r \in 1..N |-> IF r = 1 THEN RZero ELSE RSub(tab[r-1].NP, tab[r].NP)]
         isH  == [r \in 1..N |-> RLe(dh[r], RZero)]
         RECURSIVE CumH(_), CumC(_)
         CumH(r) == IF r = 0 THEN RZero ELSE RAdd(CumH(r - 1), IF isH[r] THEN RNeg(dh[r]) ELSE RZero)
         CumC(r) == IF r = 0 THEN RZero ELSE RAdd(CumC(r - 1), IF isH[r] THEN RZero ELSE RNeg(dh[r]))
         hut  == RNeg(CumC(N))
     IN  prof' = [r \in 1..N |-> [hot |-> RNeg(CumH(r)), cold |-> RAdd(CumC(r), hut)]]
  /\ phase' = "done"
  /\ UNCHANGED <<shape, tab, i, iters, hotLoc, coldLoc, pinchLoc>>

Next == Start \/ EnterAbove \/ StepAbove \/ EnterBelow \/ StepBelow \/ Profiles
Spec == Init /\ [][Next]_vars /\ WF_vars(Next)
Terminates == <>(phase = "done")

---------------------------------------------------------------------------
(* DEFINITIONAL side: greatest monotone minorant of the ORIGINAL curve *)

Orig == [j \in 1..Len(shape) |-> [T |-> R((Len(shape) - j + 1) * 100), H |-> R(shape[j])]]
n0 == Len(shape)

(* value of the original curve at temperature x (within its range) *)
EvalOrig(x) ==
  IF RGe(x, Orig[1].T) THEN Orig[1].H
  ELSE IF RLe(x, Orig[n0].T) THEN Orig[n0].H
  ELSE LET k == CHOOSE r \in 1..(n0 - 1) : RGe(Orig[r].T, x) /\ RGt(x, Orig[r+1].T)
       IN  RInterp(x, Orig[k].T, Orig[k].H, Orig[k+1].T, Orig[k+1].H)

P0 == PinchIdx0([j \in 1..n0 |-> [H |-> Orig[j].H]])
Thot  == Orig[P0.h + 1].T
Tcold == Orig[P0.c + 1].T

(* smallest value the curve takes between x and the far end of x's side of the pinch *)
Minorant(x) ==
  IF ~P0.valid THEN EvalOrig(x)
  ELSE IF RGe(x, Thot)
       THEN RMinSet({EvalOrig(x)} \cup { Orig[r].H : r \in { q \in 1..n0 : RGe(Orig[q].T, x) } })
  ELSE IF RLe(x, Tcold)
       THEN RMinSet({EvalOrig(x)} \cup { Orig[r].H : r \in { q \in 1..n0 : RLe(Orig[q].T, x) } })
  ELSE RZero

(* every temperature at which the original curve crosses the level of one of its rows *)
Crossings ==
  { RInterp(Orig[j].H, Orig[k].H, Orig[k].T, Orig[k+1].H, Orig[k+1].T) :
      <<j, k>> \in { jk \in (1..n0) \X (1..(n0 - 1)) :
                       \/ (RLt(Orig[jk[2]].H, Orig[jk[1]].H) /\ RLt(Orig[jk[1]].H, Orig[jk[2]+1].H))
                       \/ (RGt(Orig[jk[2]].H, Orig[jk[1]].H) /\ RGt(Orig[jk[1]].H, Orig[jk[2]+1].H)) } }

CheckPoints == { tab[r].T : r \in 1..N } \cup { Orig[r].T : r \in 1..n0 } \cup Crossings

(* the table's pocket-free curve as a function *)
EvalNP(x) ==
  IF RGe(x, tab[1].T) THEN tab[1].NP
  ELSE IF RLe(x, tab[N].T) THEN tab[N].NP
  ELSE LET k == CHOOSE r \in 1..(N - 1) : RGe(tab[r].T, x) /\ RGt(x, tab[r+1].T)
       IN  RInterp(x, tab[k].T, tab[k].NP, tab[k+1].T, tab[k+1].NP)
EvalH(x) ==
  IF RGe(x, tab[1].T) THEN tab[1].H
  ELSE IF RLe(x, tab[N].T) THEN tab[N].H
  ELSE LET k == CHOOSE r \in 1..(N - 1) : RGe(tab[r].T, x) /\ RGt(x, tab[r+1].T)
       IN  RInterp(x, tab[k].T, tab[k].H, tab[k+1].T, tab[k+1].H)

Done == phase = "done"

C07_Minorant == Done => \A x \in CheckPoints : EvalNP(x) = Minorant(x)
C07_GCCUnchanged == Done => \A x \in CheckPoints : EvalH(x) = EvalOrig(x)
C07_Ends == Done => tab[1].NP = Orig[1].H /\ tab[N].NP = Orig[n0].H
C07_Profiles ==
  Done =>
    /\ \A r \in 2..N : RLe(prof[r].cold, prof[r-1].cold) /\ RLe(prof[r].hot, prof[r-1].hot)   \* monotone
    /\ prof[1].cold = (IF P0.valid THEN Orig[1].H ELSE prof[1].cold)       \* heating profile ends at Qh at the top
    /\ RIsZero(prof[N].cold)                                              \* and is zero at / below the pinch
    /\ RIsZero(prof[1].hot)                                               \* cooling profile starts at zero
    /\ (P0.valid => prof[N].hot = RNeg(Orig[n0].H))                       \* and ends at Qc (sign: -Qc)
    /\ (P0.valid => \A r \in 1..N : /\ (RLe(tab[r].T, Thot)  => RIsZero(prof[r].cold))
                                    /\ (RGe(tab[r].T, Tcold) => RIsZero(prof[r].hot)))
C07_RowsDescending == \A r \in 1..(N - 1) : RGt(tab[r].T, tab[r+1].T)

---------------------------------------------------------------------------
Pts == SetToSortSeq(CheckPoints, LAMBDA a, b : RGt(a, b))
CaseRec ==
  [ shape |-> shape, valid |-> P0.valid,
    pts |-> [k \in 1..Len(Pts) |-> <<Pts[k], Minorant(Pts[k]), EvalOrig(Pts[k])>>],
    implT |-> [r \in 1..N |-> tab[r].T], implNP |-> [r \in 1..N |-> tab[r].NP],
    implHot |-> [r \in 1..N |-> prof[r].hot], implCold |-> [r \in 1..N |-> prof[r].cold] ]
EmitCase == (DoEmit /\ Done) => PrintT(<<"CASE", ToJson(CaseRec)>>)
=============================================================================
