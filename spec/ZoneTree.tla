------------------------------ MODULE ZoneTree ------------------------------
(***************************************************************************)
(* Zone-tree construction (OpenPinch/analysis/data_preparation.py and      *)
(* Zone.import_hot_and_cold_streams_from_sub_zones), property C10.         *)
(*                                                                         *)
(* Branch 1 (no user tree): the tree is synthesised from the stream        *)
(* labels: pre-pass creating every labelled zone, main pass generating one *)
(* unit-operation zone O<k> per stream with per-path counters and clash    *)
(* avoidance, labels rewritten to full paths, streams matched to zones by  *)
(* path, bottom-up aggregation in which every zone with children REPLACES  *)
(* its own collections by the union of its children's.                     *)
(* Branch 2 (user tree): labels are resolved against a given tree (exact   *)
(* path, path without root, unique suffix), the root label creates a new   *)
(* process zone named after the stream.                                    *)
(*                                                                         *)
(* Paths are sequences of zone names below the root.  Streams are          *)
(* identified by their index; names may repeat.                            *)
(***************************************************************************)
EXTENDS Integers, Sequences, FiniteSets, TLC, SequencesExt, FiniteSetsExt, Json

CONSTANTS MaxStreams, LabelIds,
          UserTree,      \* 0: no user tree (synthesis); 1: Site -> {A -> {A1}, B}; 2: Site -> {A -> {B}, B}; 3: Site -> {A -> {A1}, BA1}
          DoEmit,
          SuffixMatch,   \* mutant / old defect (fixed by f8b9c6b): a zone also receives streams whose path merely ENDS with the zone's path
          NoPrePass      \* mutant / old defect (fixed by de9c5e0): labelled zones are created lazily, generated O-names can collide

VARIABLES inp, phase, nodes, counter, assign, k
vars == <<inp, phase, nodes, counter, assign, k>>

(* label universe, in the order Python sorts the raw strings *)
Label(i) ==
  CASE i = 1 -> <<"A">>            [] i = 2 -> <<"A", "B">>      [] i = 3 -> <<"A", "B", "C">>
    [] i = 4 -> <<"A", "O1">>      [] i = 5 -> <<"B">>           [] i = 6 -> <<"B", "A">>
    [] i = 7 -> <<"O1">>           [] i = 8 -> <<"Site">>
    \* labels used with the user tree  Site -> { A -> { A1 }, B }
    [] i = 9 -> <<"A1">>           [] i = 10 -> <<"A", "A1">>    [] i = 11 -> <<"Site", "B">>
    [] i = 12 -> <<"C">>           [] i = 13 -> <<"Site", "A", "A1">>
    \* additional label for the second user tree  Site -> { A -> { B }, B }  (a zone name used at two depths)
    [] i = 14 -> <<"Site", "A", "B">>
    \* a second generated-looking name under A, leaving a gap (O1 and O3 taken, O2 free: seeded change C10c)
    [] i = 15 -> <<"A", "O3">>
    \* a zone whose NAME ends with another zone's name (third user tree  Site -> { A -> { A1 }, BA1 }): labels resolve by
    \* components, not by characters (seeded change C10h)
    [] i = 16 -> <<"BA1">>
Raw(i) ==
  CASE i = 1 -> "A" [] i = 2 -> "A/B" [] i = 3 -> "A/B/C" [] i = 4 -> "A/O1" [] i = 5 -> "B" [] i = 6 -> "B/A"
    [] i = 7 -> "O1" [] i = 8 -> "Site" [] i = 9 -> "A1" [] i = 10 -> "A/A1" [] i = 11 -> "Site/B" [] i = 12 -> "C" [] i = 13 -> "Site/A/A1" [] i = 14 -> "Site/A/B" [] i = 15 -> "A/O3" [] i = 16 -> "BA1"
RawOrder(i) == CASE i = 1 -> 1 [] i = 10 -> 2 [] i = 2 -> 3 [] i = 3 -> 4 [] i = 4 -> 5 [] i = 15 -> 6 [] i = 9 -> 7 [] i = 5 -> 8 [] i = 6 -> 9
                 [] i = 16 -> 10 [] i = 12 -> 11 [] i = 7 -> 12 [] i = 8 -> 13 [] i = 13 -> 14 [] i = 14 -> 15 [] i = 11 -> 16
Names == <<"s", "s_2", "s">>        \* stream i is called Names[i]: a duplicate name, and one that looks like a renamed key

S == inp                            \* sequence of [lab, kind]
N == Len(S)
(* sorted(stream_iter, key=(zone, name)), stable *)
Order == SetToSortSeq(1..N, LAMBDA a, b :
            IF RawOrder(S[a].lab) # RawOrder(S[b].lab) THEN RawOrder(S[a].lab) < RawOrder(S[b].lab)
            ELSE IF Names[a] # Names[b] THEN (Names[a] = "s") ELSE a < b)      \* "s" < "s_2"

PrefixSet(p) == { SubSeq(p, 1, j) : j \in 1..Len(p) }
IsPrefix_(p, q) == Len(p) <= Len(q) /\ SubSeq(q, 1, Len(p)) = p
IsSuffix_(p, q) == Len(p) <= Len(q) /\ SubSeq(q, Len(q) - Len(p) + 1, Len(q)) = p

---------------------------------------------------------------------------
(* Branch 1: synthesis *)
Init ==
  /\ \E n \in 1..MaxStreams : inp \in [1..n -> [lab : LabelIds, kind : {"H", "C"}]]
  /\ phase = "prepass" /\ nodes = {} /\ counter = <<>> /\ assign = <<>> /\ k = 1

PrePass ==
  /\ phase = "prepass" /\ UserTree = 0
  /\ nodes' = IF NoPrePass THEN {} ELSE UNION { PrefixSet(Label(S[i].lab)) : i \in 1..N }
  /\ counter' = [p \in {} |-> 0]
  /\ assign' = [i \in 1..N |-> <<>>]
  /\ phase' = "main" /\ k' = 1
  /\ UNCHANGED inp

RECURSIVE FreshO(_, _, _)
FreshO(p, c, nd) == IF Append(p, "O" \o ToString(c)) \in nd THEN FreshO(p, c + 1, nd) ELSE c

(* one iteration of the main loop: the k-th stream in sorted order *)
MainStep ==
  /\ phase = "main" /\ k <= N
  /\ LET i  == Order[k]
         p  == Label(S[i].lab)
         nd == nodes \cup PrefixSet(p)
         c0 == (IF p \in DOMAIN counter THEN counter[p] ELSE 0) + 1
         c  == FreshO(p, c0, nd)
         z  == Append(p, "O" \o ToString(c))
     IN  /\ nodes' = nd \cup {z}
         /\ counter' = [q \in (DOMAIN counter) \cup {p} |-> IF q = p THEN c ELSE counter[q]]
         /\ assign' = [assign EXCEPT ![i] = z]
  /\ k' = k + 1
  /\ phase' = IF k = N THEN "done" ELSE "main"
  /\ UNCHANGED inp

(* Branch 2: resolution against the user tree  Site -> { A -> { A1 }, B }  or  Site -> { A -> { B }, B } *)
IsNew(p) == Len(p) = 1 /\ p[1] \in { "#new" \o ToString(j) : j \in 1..3 }
UNodes == IF UserTree = 2 THEN { <<"A">>, <<"A", "B">>, <<"B">> }
          ELSE IF UserTree = 3 THEN { <<"A">>, <<"A", "A1">>, <<"BA1">> }
          ELSE { <<"A">>, <<"A", "A1">>, <<"B">> }
Resolve(i) ==      \* _rewrite_stream_zones_from_tree for stream i; result: the zone path the stream ends up matched to, or <<"?">>
  LET c == Label(S[i].lab)
      full == IF c[1] = "Site" THEN Tail(c) ELSE c          \* canonical "Site/..." or path relative to the root
      cands == { u \in UNodes \cup {<<>>} : IsSuffix_(c, <<"Site">> \o u) }
  IN  IF c = <<"Site">> THEN <<"#new" \o ToString(i)>>          \* root label: a new process zone named after the stream
      ELSE IF c[1] = "Site" /\ Tail(c) \in UNodes THEN Tail(c)
      ELSE IF Cardinality(cands) = 1 THEN (CHOOSE u \in cands : TRUE)
      ELSE IF c \in UNodes THEN c        \* ambiguous suffix: the label is left as it is and matches the zone whose path below the root it spells
      ELSE <<"?">>
UserStep ==
  /\ phase = "prepass" /\ UserTree # 0
  /\ assign' = [i \in 1..N |-> Resolve(i)]
  /\ nodes' = UNodes \cup { Resolve(i) : i \in { j \in 1..N : IsNew(Resolve(j)) } }
  /\ counter' = <<>> /\ k' = N + 1 /\ phase' = "done"
  /\ UNCHANGED inp

Next == PrePass \/ MainStep \/ UserStep
Spec == Init /\ [][Next]_vars

---------------------------------------------------------------------------
(* matching and bottom-up aggregation (implementation-shaped) *)
Zones == nodes
Children(z) == { c \in nodes : Len(c) = Len(z) + 1 /\ IsPrefix_(z, c) }
Matched(z) == { i \in 1..N : IF SuffixMatch THEN IsSuffix_(z, assign[i]) ELSE assign[i] = z }
(* content of a zone as a multiset: stream index -> multiplicity *)
RECURSIVE Content(_)
Content(z) ==
  IF Children(z) = {} THEN [i \in 1..N |-> IF i \in Matched(z) THEN 1 ELSE 0]
  ELSE LET cs == SetToSeq(Children(z)) IN
       [i \in 1..N |-> FoldSeq(LAMBDA c, acc : acc + Content(c)[i], 0, cs)]
RootContent == LET cs == SetToSeq({ c \in nodes : Len(c) = 1 }) IN
               [i \in 1..N |-> FoldSeq(LAMBDA c, acc : acc + Content(c)[i], 0, cs)]

(* DEFINITIONAL: conservation *)
Leaves == { z \in nodes : Children(z) = {} }
(* known findings with a user tree: a label that names no zone of the tree, or a zone that has children *)
KFUnknown(i) == UserTree # 0 /\ assign[i] = <<"?">>
KFNonLeaf(i) == UserTree # 0 /\ assign[i] \in nodes /\ Children(assign[i]) # {}
Carved(i) == KFUnknown(i) \/ KFNonLeaf(i)

Done == phase = "done"
C10_ExactlyOneLeaf ==
  Done => \A i \in 1..N : Carved(i) \/ Cardinality({ z \in Leaves : Content(z)[i] > 0 }) = 1
C10_OncePerAncestor ==
  Done => \A i \in 1..N : Carved(i) \/
            /\ RootContent[i] = 1
            /\ \A z \in nodes : Content(z)[i] = (IF IsPrefix_(z, assign[i]) THEN 1 ELSE 0)
C10_LeafIsOwn ==
  Done => \A i \in 1..N : Carved(i) \/ (assign[i] \in Leaves /\ Content(assign[i])[i] = 1)

CaseRec ==
  [ streams |-> [i \in 1..N |-> [label |-> Raw(S[i].lab), name |-> Names[i], kind |-> S[i].kind]],
    userTree |-> UserTree,
    zones |-> [j \in 1..Cardinality(nodes) |-> LET z == SetToSeq(nodes)[j] IN [path |-> z, content |-> Content(z)]],
    root |-> RootContent, assign |-> assign,
    carved |-> [i \in 1..N |-> Carved(i)], newZone |-> [i \in 1..N |-> IsNew(assign[i])] ]
EmitCase == (DoEmit /\ Done) => PrintT(<<"CASE", ToJson(CaseRec)>>)
=============================================================================
