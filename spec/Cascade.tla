------------------------------ MODULE Cascade ------------------------------
(***************************************************************************)
(* Problem-table heat cascade of OpenPinch on an integer lattice.          *)
(*                                                                         *)
(* Two descriptions live side by side:                                     *)
(*   * DEFINITIONAL operators (suffix Def / HotBelow / ColdBelow / ...):   *)
(*     the property statements of C01, C05, C06 transcribed directly --    *)
(*     exact integrals of the streams, max-deficit targets, zero set.      *)
(*   * IMPLEMENTATION-SHAPED operators and actions: what                   *)
(*     OpenPinch/analysis/problem_table_analysis.py does, step by step     *)
(*     (grid -> interval activity -> CP sums -> cumulative sums -> shift   *)
(*     -> real table -> recovery offset -> targets -> pinch rows).         *)
(* TLC enumerates every bounded input in Init, runs the machine and checks *)
(* the invariants that relate the two.  The same run exports every case    *)
(* (input + definitional expectations + implementation-shaped table) as a  *)
(* JSON line that the Python harness replays into the real code.           *)
(*                                                                         *)
(* Lattice: one unit = 0.01 K under the native embedding, all quantities   *)
(* integers.  On the lattice every tolerance comparison of the code        *)
(* coincides with the exact comparison of the same strictness.             *)
(***************************************************************************)
EXTENDS Integers, Sequences, FiniteSets, TLC, SequencesExt, FiniteSetsExt, Json

CONSTANTS
  Temps,        \* lattice temperatures for supply/target of ordinary streams
  CPs,          \* heat-capacity flow rates of ordinary streams
  DTCs,         \* per-stream minimum-temperature-difference contributions
  LatentCPs,    \* CP of 1-unit wide (latent) streams; {} = no latent streams
  MaxStreams,   \* multisets of 1..MaxStreams streams
  UtilOpts,     \* subset of 0..3: which utility ladders (extra grid rows) to add
  NZones,       \* 1: single zone; 2: additionally every assignment of the streams to two zones
  Shard, NShards,   \* Init keeps multisets whose first index = Shard mod NShards
  DoEmit,       \* TRUE: print one CASE line per finished behaviour
  ActStrict,    \* mutant switch: FALSE = non-strict interval activity test
  ShiftByMin,   \* mutant switch: FALSE = shift cascade by last row instead of min
  RealOnShifted \* mutant switch: TRUE = real table tests activity on shifted bounds
                \*   (the defect repaired by /repo commit "fix: pass the temperature-scale flag")

VARIABLES inp, phase, pt, ptr, tgt
vars == <<inp, phase, pt, ptr, tgt>>

Max2(a, b) == IF a >= b THEN a ELSE b
Min2(a, b) == IF a <= b THEN a ELSE b
SumSeq(F(_), s) == FoldSeq(LAMBDA x, acc : acc + F(x), 0, s)
SeqMin(s) == Min({s[i] : i \in 1..Len(s)})
SeqMax(s) == Max({s[i] : i \in 1..Len(s)})

---------------------------------------------------------------------------
(* Streams *)

TMin == Min(Temps)
TMax == Max(Temps)

Ordinary == { [k |-> k, lo |-> lo, hi |-> hi, cp |-> cp, dtc |-> d] :
                k \in {"H", "C"}, lo \in Temps, hi \in Temps, cp \in CPs, d \in DTCs }
Latent   == { [k |-> k, lo |-> IF k = "H" THEN t - 1 ELSE t,
                         hi |-> IF k = "H" THEN t ELSE t + 1, cp |-> cp, dtc |-> d] :
                k \in {"H", "C"}, t \in Temps, cp \in LatentCPs, d \in DTCs }
Universe == { s \in Ordinary : s.lo < s.hi } \cup Latent
USeq     == SetToSeq(Universe)
NU       == Len(USeq)

(* utility ladders: cp = 0, they only contribute grid rows *)
Ut(k, lo, hi, d) == [k |-> k, lo |-> lo, hi |-> hi, cp |-> 0, dtc |-> d]
UtilLadder(o) ==
  CASE o = 0 -> <<>>
    [] o = 1 -> << Ut("H", TMax + 140, TMax + 150, 50), Ut("C", TMin - 150, TMin - 140, 50) >>
    [] o = 2 -> << Ut("H", TMin + 140, TMin + 150, 0),  Ut("C", TMin + 150, TMin + 160, 0) >>
    [] o = 3 -> << Ut("H", TMax + 140, TMax + 150, 50), Ut("H", TMin + 90, TMin + 150, 50),
                   Ut("C", TMin - 150, TMin - 100, 0) >>

ShLo(s) == IF s.k = "H" THEN s.lo - s.dtc ELSE s.lo + s.dtc
ShHi(s) == IF s.k = "H" THEN s.hi - s.dtc ELSE s.hi + s.dtc
Lo(s, sh) == IF sh THEN ShLo(s) ELSE s.lo
Hi(s, sh) == IF sh THEN ShHi(s) ELSE s.hi
Duty(s)   == s.cp * (s.hi - s.lo)
Kind(S, k) == SelectSeq(S, LAMBDA s : s.k = k)

---------------------------------------------------------------------------
(* DEFINITIONAL operators -- the property statements *)

Below(s, T, sh)    == s.cp * Max2(0, Min2(T, Hi(s, sh)) - Lo(s, sh))
HotBelow(S, T, sh)  == SumSeq(LAMBDA s : Below(s, T, sh), Kind(S, "H"))
ColdBelow(S, T, sh) == SumSeq(LAMBDA s : Below(s, T, sh), Kind(S, "C"))
TotHot(S)  == SumSeq(Duty, Kind(S, "H"))
TotCold(S) == SumSeq(Duty, Kind(S, "C"))
Breaks(S, sh) == { Lo(S[i], sh) : i \in 1..Len(S) } \cup { Hi(S[i], sh) : i \in 1..Len(S) }

(* net heat deficit above the shifted temperature T *)
Deficit(S, T) == (TotCold(S) - ColdBelow(S, T, TRUE)) - (TotHot(S) - HotBelow(S, T, TRUE))
BrkSeq(S)     == SetToSortSeq(Breaks(S, TRUE), LAMBDA a, b : a > b)      \* descending

(* All definitional quantities of a stream sequence S in one record (LET-bound *)
(* values are evaluated once; TLC does not memoise operator applications).    *)
(*   Qh = largest net deficit above any shifted temperature (or 0)            *)
(*   Qc = Qh - total cold duty + total hot duty,  Qr = total hot duty - Qc    *)
(*   res[i] = exact residual heat flow crossing breakpoint brk[i]  (>= 0)     *)
(* C06 reading (DESIGN 7/C06): the residual is piecewise linear with          *)
(* breakpoints in brk and >= 0, so its zero set is the union of the zero      *)
(* breakpoints and of the segments joining consecutive zero breakpoints.      *)
(* If Qh = 0 the zero run touching the top collapses to its lowest point, if  *)
(* Qc = 0 the run touching the bottom collapses to its highest point; the hot *)
(* pinch is the highest, the cold pinch the lowest remaining zero.            *)
Analysis(S) ==
  LET th  == TotHot(S)
      tc  == TotCold(S)
      b   == BrkSeq(S)
      n   == Len(b)
      def == [i \in 1..n |-> Deficit(S, b[i])]
      qh  == Max({0} \cup { def[i] : i \in 1..n })
      qc  == qh - tc + th
      res == [i \in 1..n |-> qh - def[i]]
      Z   == { i \in 1..n : res[i] = 0 }
      top == { j \in 1..n : \A m \in 1..j : res[m] = 0 }        \* indices of the top zero run
      bot == { j \in 1..n : \A m \in j..n : res[m] = 0 }        \* indices of the bottom zero run
      z1  == IF qh = 0 /\ top # {} THEN (Z \ top) \cup {Max(top)} ELSE Z
      z2  == IF qc = 0 /\ bot # {} THEN z1 \ (bot \ {Min(bot)}) ELSE z1
      absent == (Z = 1..n) \/ z2 = {}
  IN  [ Qh |-> qh, Qc |-> qc, Qr |-> th - qc, totHot |-> th, totCold |-> tc,
        brk |-> b, res |-> res,
        zeros |-> [j \in 1..Cardinality(Z) |-> b[SetToSortSeq(Z, LAMBDA x, y : x < y)[j]]],
        inner |-> { b[i] : i \in Z \ (top \cup bot) },
        pinchAbsent |-> absent,
        hotPinch  |-> IF absent THEN 0 ELSE b[Min(z2)],
        coldPinch |-> IF absent THEN 0 ELSE b[Max(z2)] ]

QhDef(S) == Analysis(S).Qh
QcDef(S) == Analysis(S).Qc
QrDef(S) == Analysis(S).Qr

---------------------------------------------------------------------------
(* IMPLEMENTATION-SHAPED operators *)

(* create_problem_table_with_t_int: every bound of every stream AND utility, *)
(* rounded to 6 dp (identity on the lattice), unique, descending             *)
Grid(S, U, sh) == SetToSortSeq(Breaks(S \o U, sh), LAMBDA a, b : a > b)

(* _sum_mcp_between_temperature_boundaries.calc_active_matrix *)
Active(s, lower, upper, sh) ==
  IF ActStrict THEN Hi(s, sh) > lower /\ Lo(s, sh) < upper
               ELSE Hi(s, sh) >= lower /\ Lo(s, sh) <= upper
CPIn(S, k, lower, upper, sh) ==
  SumSeq(LAMBDA s : IF Active(s, lower, upper, sh) THEN s.cp ELSE 0, Kind(S, k))

(* problem_table_algorithm on grid T (a sequence), activity on scale shAct *)
Table(S, T, shAct) ==
  LET n    == Len(T)
      dT   == [i \in 1..n |-> IF i = 1 THEN 0 ELSE T[i-1] - T[i]]
      cpH  == [i \in 1..n |-> IF i = 1 THEN 0 ELSE CPIn(S, "H", T[i], T[i-1], shAct)]
      cpC  == [i \in 1..n |-> IF i = 1 THEN 0 ELSE CPIn(S, "C", T[i], T[i-1], shAct)]
      dHh  == [i \in 1..n |-> dT[i] * cpH[i]]
      dHc  == [i \in 1..n |-> dT[i] * cpC[i]]
      dHn  == [i \in 1..n |-> dT[i] * (cpC[i] - cpH[i])]
      RECURSIVE Cum(_, _)
      Cum(f, i) == IF i = 0 THEN 0 ELSE Cum(f, i - 1) + f[i]
      cumH == [i \in 1..n |-> Cum(dHh, i)]
      cumC == [i \in 1..n |-> Cum(dHc, i)]
      raw  == [i \in 1..n |-> -Cum(dHn, i)]
      minH == IF ShiftByMin THEN SeqMin(raw) ELSE raw[n]
      shift == raw[n] - minH
  IN  [ T |-> T, dT |-> dT, cpH |-> cpH, cpC |-> cpC, dHh |-> dHh, dHc |-> dHc, dHn |-> dHn,
        Hhot  |-> [i \in 1..n |-> cumH[n] - cumH[i]],
        Hcold |-> [i \in 1..n |-> cumC[n] + shift - cumC[i]],
        Hnet  |-> [i \in 1..n |-> raw[i] - minH] ]

HeatRecovery(t) == t.Hhot[1] - t.Hnet[Len(t.T)]

(* _shift_pt_to_set_heat_recovery *)
ShiftForRecovery(t, known) ==
  LET d == HeatRecovery(t) - known IN
  [t EXCEPT !.Hcold = [i \in DOMAIN t.Hcold |-> t.Hcold[i] + d],
            !.Hnet  = [i \in DOMAIN t.Hnet  |-> t.Hnet[i]  + d]]

(* ProblemTable.pinch_idx on a column h (tolerance = exact zero on the lattice) *)
PinchIdx(h) ==
  LET n  == Len(h)
      Z  == { i \in 1..n : h[i] = 0 }
      NZ == (1..n) \ Z
  IN  IF Z # {} /\ NZ # {}
      THEN LET fz == Min(Z)
               lz == Max(Z)
               rh == IF fz > 1 THEN fz ELSE Min(NZ) - 1
               rc == IF lz < n THEN lz ELSE Max(NZ) + 1
           IN  [h |-> rh, c |-> rc, valid |-> rh <= rc]
      ELSE [h |-> n, c |-> 1, valid |-> FALSE]

---------------------------------------------------------------------------
(* The machine *)

(* multisets of n streams = non-decreasing index sequences into USeq *)
RECURSIVE IdxSeqs(_)
IdxSeqs(n) == IF n = 1 THEN { <<a>> : a \in 1..NU }
              ELSE UNION { { Append(s, b) : b \in s[n-1]..NU } : s \in IdxSeqs(n - 1) }
IdxSum(f)  == FoldSeq(LAMBDA x, acc : acc + x, 0, f)

Init ==
  /\ \E n \in 1..MaxStreams : \E f \in IdxSeqs(n) : \E o \in UtilOpts :
     \E z \in [1..n -> 1..NZones] :
        /\ IdxSum(f) % NShards = Shard
        /\ z[1] = 1                                  \* zone names are symmetric
        /\ inp = [S |-> [i \in 1..n |-> USeq[f[i]]], U |-> UtilLadder(o), uo |-> o, z |-> z]
  /\ phase = "start"
  /\ pt = <<>> /\ ptr = <<>> /\ tgt = <<>>

BuildShifted ==
  /\ phase = "start"
  /\ pt' = Table(inp.S, Grid(inp.S, inp.U, TRUE), TRUE)
  /\ phase' = "shifted"
  /\ UNCHANGED <<inp, ptr, tgt>>

BuildReal ==
  /\ phase = "shifted"
  /\ ptr' = Table(inp.S, Grid(inp.S, inp.U, FALSE), RealOnShifted)
  /\ phase' = "real"
  /\ UNCHANGED <<inp, pt, tgt>>

SetRecovery ==
  /\ phase = "real"
  /\ ptr' = ShiftForRecovery(ptr, HeatRecovery(pt))
  /\ phase' = "recovered"
  /\ UNCHANGED <<inp, pt, tgt>>

ReadTargets ==
  /\ phase = "recovered"
  /\ LET n == Len(pt.T)
         p == PinchIdx(pt.Hnet)
     IN tgt' = [ Qh |-> pt.Hnet[1], Qc |-> pt.Hnet[n], Qr |-> pt.Hhot[1] - pt.Hnet[n],
                 QrLimit |-> ptr.Hhot[1] - ptr.Hnet[Len(ptr.T)],
                 pinchValid |-> p.valid,
                 hotPinch |-> IF p.valid THEN pt.T[p.h] ELSE 0,
                 coldPinch |-> IF p.valid THEN pt.T[p.c] ELSE 0 ]
  /\ phase' = "done"
  /\ UNCHANGED <<inp, pt, ptr>>

Next == BuildShifted \/ BuildReal \/ SetRecovery \/ ReadTargets
Spec == Init /\ [][Next]_vars /\ WF_vars(Next)

Terminates == <>(phase = "done")

---------------------------------------------------------------------------
(* Invariants: implementation-shaped state versus definitional operators *)

Done == phase = "done"
Sin == inp.S

AN == Analysis(Sin)

C01_Targets ==
  Done => LET A == AN IN
          /\ tgt.Qh = A.Qh
          /\ tgt.Qc = A.Qc
          /\ tgt.Qr = A.Qr
          /\ tgt.Qh >= 0 /\ tgt.Qc >= 0 /\ tgt.Qr >= 0

C05_ShiftedCurves ==
  phase = "shifted" =>
    LET qc == QcDef(Sin) IN
    \A i \in 1..Len(pt.T) :
      /\ pt.Hhot[i]  = HotBelow(Sin, pt.T[i], TRUE)
      /\ pt.Hcold[i] = ColdBelow(Sin, pt.T[i], TRUE) + qc
      /\ pt.Hnet[i]  = pt.Hcold[i] - pt.Hhot[i]
      /\ pt.Hnet[i]  >= 0

C05_ShiftedTouchesZero ==
  phase = "shifted" => \E i \in 1..Len(pt.T) : pt.Hnet[i] = 0

C05_Spans ==
  phase = "shifted" =>
    /\ pt.Hhot[1] - pt.Hhot[Len(pt.T)] = TotHot(Sin)
    /\ pt.Hcold[1] - pt.Hcold[Len(pt.T)] = TotCold(Sin)

C05_RealCurves ==
  phase = "recovered" =>
    LET qc == QcDef(Sin) IN
    \A i \in 1..Len(ptr.T) :
      /\ ptr.Hhot[i]  = HotBelow(Sin, ptr.T[i], FALSE)
      /\ ptr.Hcold[i] = ColdBelow(Sin, ptr.T[i], FALSE) + qc
      /\ ptr.Hnet[i]  = ptr.Hcold[i] - ptr.Hhot[i]

C05_SameTargetsOnBothTables ==
  phase = "recovered" =>
    LET n == Len(ptr.T) IN
    /\ ptr.Hnet[1] = pt.Hnet[1]
    /\ ptr.Hnet[n] = pt.Hnet[Len(pt.T)]
    /\ HeatRecovery(ptr) = HeatRecovery(pt)

RowWise(t) ==
  \A i \in 1..Len(t.T) :
    /\ (i > 1 => t.dT[i] = t.T[i-1] - t.T[i] /\ t.dT[i] > 0)
    /\ t.dHh[i] = t.cpH[i] * t.dT[i]
    /\ t.dHc[i] = t.cpC[i] * t.dT[i]
    /\ t.dHn[i] = (t.cpC[i] - t.cpH[i]) * t.dT[i]
    /\ (i > 1 => t.Hhot[i-1] - t.Hhot[i] = t.dHh[i])
    /\ (i > 1 => t.Hcold[i-1] - t.Hcold[i] = t.dHc[i])
C05_RowWise ==
  /\ (phase = "shifted" => RowWise(pt))
  /\ (phase \in {"real", "recovered"} => RowWise(ptr))

C06_Pinch ==
  Done =>
    LET A == AN IN
    IF A.pinchAbsent THEN ~tgt.pinchValid
    ELSE /\ tgt.pinchValid
         /\ tgt.hotPinch  = A.hotPinch
         /\ tgt.coldPinch = A.coldPinch
         /\ tgt.hotPinch >= tgt.coldPinch
         /\ \A T \in A.inner : tgt.coldPinch <= T /\ T <= tgt.hotPinch

---------------------------------------------------------------------------
(* Case export for replay into the real code *)

Curve(sh) ==
  LET b == SetToSortSeq(Breaks(Sin \o inp.U, sh), LAMBDA a, c : a > c) IN
  [i \in 1..Len(b) |-> <<b[i], HotBelow(Sin, b[i], sh), ColdBelow(Sin, b[i], sh)>>]

ZoneIdx(k)  == SetToSortSeq({ i \in 1..Len(Sin) : inp.z[i] = k }, LAMBDA a, b : a < b)
ZoneSeq(k)  == [j \in 1..Len(ZoneIdx(k)) |-> Sin[ZoneIdx(k)[j]]]
ZoneRec(k)  ==
  LET A == Analysis(ZoneSeq(k)) IN
  [ idx |-> ZoneIdx(k), Qh |-> A.Qh, Qc |-> A.Qc, Qr |-> A.Qr,
    totHot |-> A.totHot, totCold |-> A.totCold,
    pinchAbsent |-> A.pinchAbsent, hotPinch |-> A.hotPinch, coldPinch |-> A.coldPinch ]

CaseRec ==
  LET A == AN IN
  [ S |-> Sin, U |-> inp.U, uo |-> inp.uo, z |-> inp.z,
    zones |-> [k \in { j \in 1..NZones : ZoneIdx(j) # <<>> } |-> ZoneRec(k)],
    Qh |-> A.Qh, Qc |-> A.Qc, Qr |-> A.Qr,
    totHot |-> A.totHot, totCold |-> A.totCold,
    curveSh |-> Curve(TRUE), curveRe |-> Curve(FALSE),
    pinchAbsent |-> A.pinchAbsent, hotPinch |-> A.hotPinch, coldPinch |-> A.coldPinch,
    zeros |-> A.zeros,
    implT |-> pt.T, implHnet |-> pt.Hnet, implHhot |-> pt.Hhot, implHcold |-> pt.Hcold,
    implTr |-> ptr.T, implHnetR |-> ptr.Hnet, implHhotR |-> ptr.Hhot, implHcoldR |-> ptr.Hcold ]

EmitCase == (DoEmit /\ Done) => PrintT(<<"CASE", ToJson(CaseRec)>>)
=============================================================================
