------------------------------ MODULE Cascade ------------------------------
(***************************************************************************)
(* The cascade machine: every bounded input in Init, one action per step   *)
(* of get_process_heat_cascade / set_zonal_targets, invariants relating    *)
(* the implementation-shaped state to the definitional operators of        *)
(* CascadeDefs (C01, C05, C06), and the case export.                       *)
(***************************************************************************)
EXTENDS CascadeDefs

CONSTANTS
  MaxStreams,   \* multisets of 1..MaxStreams streams
  UtilOpts,     \* subset of 0..3: which utility ladders (extra grid rows) to add
  NZones,       \* 1: single zone; 2: additionally every assignment of the streams to two zones
  Shard, NShards,   \* Init keeps multisets whose index sum = Shard mod NShards
  DoEmit,       \* TRUE: print one CASE line per finished behaviour
  RealOnShifted \* mutant switch: TRUE = real table tests activity on shifted bounds
                \*   (the defect repaired by /repo commit "fix: pass the temperature-scale flag")

VARIABLES inp, phase, pt, ptr, tgt
vars == <<inp, phase, pt, ptr, tgt>>

---------------------------------------------------------------------------
(* The machine *)

Init ==
  /\ ForEachMultiset(MaxStreams, LAMBDA f :
        /\ IdxSum(f) % NShards = Shard
        /\ \E o \in UtilOpts : \E z \in [1..Len(f) -> 1..NZones] :
             /\ z[1] = 1                             \* zone names are symmetric
             /\ inp = [S |-> [i \in 1..Len(f) |-> USeq[f[i]]], U |-> UtilLadder(o), uo |-> o, z |-> z])
  /\ phase = "start"
  /\ pt = <<>> /\ ptr = <<>> /\ tgt = <<>>

BuildShifted ==
  /\ phase = "start"
  /\ pt' = Table(inp.S, Grid(inp.S, inp.U, TRUE), TRUE)
  /\ phase' = "shifted"
  /\ UNCHANGED <<inp, ptr, tgt>>

BuildReal ==
  /\ phase = "shifted"
  /\ ptr' = Table(inp.S, Grid(inp.S, inp.U, FALSE), RealOnShifted)
  /\ phase' = "real"
  /\ UNCHANGED <<inp, pt, tgt>>

SetRecovery ==
  /\ phase = "real"
  /\ ptr' = ShiftForRecovery(ptr, HeatRecovery(pt))
  /\ phase' = "recovered"
  /\ UNCHANGED <<inp, pt, tgt>>

ReadTargets ==
  /\ phase = "recovered"
  /\ LET n == Len(pt.T)
         p == PinchIdx(pt.Hnet)
     IN tgt' = [ Qh |-> pt.Hnet[1], Qc |-> pt.Hnet[n], Qr |-> pt.Hhot[1] - pt.Hnet[n],
                 QrLimit |-> ptr.Hhot[1] - ptr.Hnet[Len(ptr.T)],
                 pinchValid |-> p.valid,
                 hotPinch |-> IF p.valid THEN pt.T[p.h] ELSE 0,
                 coldPinch |-> IF p.valid THEN pt.T[p.c] ELSE 0 ]
  /\ phase' = "done"
  /\ UNCHANGED <<inp, pt, ptr>>

Next == BuildShifted \/ BuildReal \/ SetRecovery \/ ReadTargets
Spec == Init /\ [][Next]_vars /\ WF_vars(Next)

Terminates == <>(phase = "done")

---------------------------------------------------------------------------
(* Invariants: implementation-shaped state versus definitional operators *)

Done == phase = "done"
Sin == inp.S

AN == Analysis(Sin)

C01_Targets ==
  Done => LET A == AN IN
          /\ tgt.Qh = A.Qh
          /\ tgt.Qc = A.Qc
          /\ tgt.Qr = A.Qr
          /\ tgt.Qh >= 0 /\ tgt.Qc >= 0 /\ tgt.Qr >= 0

C05_ShiftedCurves ==
  phase = "shifted" =>
    LET qc == QcDef(Sin) IN
    \A i \in 1..Len(pt.T) :
      /\ pt.Hhot[i]  = HotBelow(Sin, pt.T[i], TRUE)
      /\ pt.Hcold[i] = ColdBelow(Sin, pt.T[i], TRUE) + qc
      /\ pt.Hnet[i]  = pt.Hcold[i] - pt.Hhot[i]
      /\ pt.Hnet[i]  >= 0

C05_ShiftedTouchesZero ==
  phase = "shifted" => \E i \in 1..Len(pt.T) : pt.Hnet[i] = 0

C05_Spans ==
  phase = "shifted" =>
    /\ pt.Hhot[1] - pt.Hhot[Len(pt.T)] = TotHot(Sin)
    /\ pt.Hcold[1] - pt.Hcold[Len(pt.T)] = TotCold(Sin)

C05_RealCurves ==
  phase = "recovered" =>
    LET qc == QcDef(Sin) IN
    \A i \in 1..Len(ptr.T) :
      /\ ptr.Hhot[i]  = HotBelow(Sin, ptr.T[i], FALSE)
      /\ ptr.Hcold[i] = ColdBelow(Sin, ptr.T[i], FALSE) + qc
      /\ ptr.Hnet[i]  = ptr.Hcold[i] - ptr.Hhot[i]

C05_SameTargetsOnBothTables ==
  phase = "recovered" =>
    LET n == Len(ptr.T) IN
    /\ ptr.Hnet[1] = pt.Hnet[1]
    /\ ptr.Hnet[n] = pt.Hnet[Len(pt.T)]
    /\ HeatRecovery(ptr) = HeatRecovery(pt)

RowWise(t) ==
  \A i \in 1..Len(t.T) :
    /\ (i > 1 => t.dT[i] = t.T[i-1] - t.T[i] /\ t.dT[i] > 0)
    /\ t.dHh[i] = t.cpH[i] * t.dT[i]
    /\ t.dHc[i] = t.cpC[i] * t.dT[i]
    /\ t.dHn[i] = (t.cpC[i] - t.cpH[i]) * t.dT[i]
    /\ (i > 1 => t.Hhot[i-1] - t.Hhot[i] = t.dHh[i])
    /\ (i > 1 => t.Hcold[i-1] - t.Hcold[i] = t.dHc[i])
C05_RowWise ==
  /\ (phase = "shifted" => RowWise(pt))
  /\ (phase \in {"real", "recovered"} => RowWise(ptr))

C06_Pinch ==
  Done =>
    LET A == AN IN
    IF A.pinchAbsent THEN ~tgt.pinchValid
    ELSE /\ tgt.pinchValid
         /\ tgt.hotPinch  = A.hotPinch
         /\ tgt.coldPinch = A.coldPinch
         /\ tgt.hotPinch >= tgt.coldPinch
         /\ \A T \in A.inner : tgt.coldPinch <= T /\ T <= tgt.hotPinch

---------------------------------------------------------------------------
(* Case export for replay into the real code *)

Curve(sh) ==
  LET b == SetToSortSeq(Breaks(Sin \o inp.U, sh), LAMBDA a, c : a > c) IN
  [i \in 1..Len(b) |-> <<b[i], HotBelow(Sin, b[i], sh), ColdBelow(Sin, b[i], sh)>>]

ZoneIdx(k)  == SetToSortSeq({ i \in 1..Len(Sin) : inp.z[i] = k }, LAMBDA a, b : a < b)
ZoneSeq(k)  == [j \in 1..Len(ZoneIdx(k)) |-> Sin[ZoneIdx(k)[j]]]
ZoneRec(k)  ==
  LET A == Analysis(ZoneSeq(k)) IN
  [ idx |-> ZoneIdx(k), Qh |-> A.Qh, Qc |-> A.Qc, Qr |-> A.Qr,
    totHot |-> A.totHot, totCold |-> A.totCold,
    pinchAbsent |-> A.pinchAbsent, hotPinch |-> A.hotPinch, coldPinch |-> A.coldPinch ]

CaseRec ==
  LET A == AN IN
  [ S |-> Sin, U |-> inp.U, uo |-> inp.uo, z |-> inp.z,
    zones |-> [k \in { j \in 1..NZones : ZoneIdx(j) # <<>> } |-> ZoneRec(k)],
    Qh |-> A.Qh, Qc |-> A.Qc, Qr |-> A.Qr,
    totHot |-> A.totHot, totCold |-> A.totCold,
    curveSh |-> Curve(TRUE), curveRe |-> Curve(FALSE),
    pinchAbsent |-> A.pinchAbsent, hotPinch |-> A.hotPinch, coldPinch |-> A.coldPinch,
    zeros |-> A.zeros,
    implT |-> pt.T, implHnet |-> pt.Hnet, implHhot |-> pt.Hhot, implHcold |-> pt.Hcold,
    implTr |-> ptr.T, implHnetR |-> ptr.Hnet, implHhotR |-> ptr.Hhot, implHcoldR |-> ptr.Hcold ]

EmitCase == (DoEmit /\ Done) => PrintT(<<"CASE", ToJson(CaseRec)>>)
=============================================================================
