--------------------------- MODULE TracePipeline ---------------------------
(***************************************************************************)
(* Trace validation of direct-integration targeting on problems far larger *)
(* than the exhaustive bounds (4-12 streams on a 20-point lattice, several *)
(* zones, utility ladders).  One event = one zone's direct-integration run *)
(* recorded by the hooks: the zone's streams (lattice integers x K), the   *)
(* UNROUNDED shifted and real tables (snapshot taken before the in-place   *)
(* rounding), targets, pinch temperatures and utility duties, all in fixed *)
(* point (x K).  TLC recomputes the definitional quantities from the       *)
(* streams (CascadeDefs) and judges, per event:                            *)
(*   C01 targets; C05 curves at EVERY row of both tables (including rows   *)
(*   inserted by constant-enthalpy projection, pocket cutting and utility  *)
(*   levels), net curve, same targets on both tables, row-wise widths;     *)
(*   C06 pinch temperatures; C07 the pocket-free column is the running     *)
(*   minimum on each side of the pinch, zero between the pinches, and no   *)
(*   closing breakpoint is missing between two rows; load profiles;        *)
(*   C03 duties sum to the targets; C04 the utility GCC stays between zero *)
(*   and the pocket-free GCC at every row.                                 *)
(***************************************************************************)
EXTENDS CascadeDefs, IOUtils

VARIABLE l
Trace == JsonDeserialize(IOEnv.TRACE_FILE)
K == 100
Near(a, b, t) == a - b <= t /\ b - a <= t
SumQ(F(_), s) == FoldSeq(LAMBDA x, acc : acc + F(x), 0, s)

(* streams arrive already multiplied by K in lo/hi/dtc; cp is the lattice CP, so heat contents come out x K *)
EvFails(e) ==
  LET S   == e.S
      A   == Analysis(S)
      n   == Len(e.T)
      tol == e.tol                                   \* rounding slack: (sum of CPs + 2) units
      nr  == Len(e.Tr)
      hotRow  == IF A.pinchAbsent THEN 0 ELSE Min({ r \in 1..n : e.T[r] <= A.hotPinch + 1 } \cup {n + 1})
      coldRow == IF A.pinchAbsent THEN 0 ELSE Max({ r \in 1..n : e.T[r] >= A.coldPinch - 1 } \cup {0})
      RECURSIVE RunMinDown(_), RunMinUp(_)
      RunMinDown(r) == IF r = 1 THEN e.Hnet[1] ELSE Min({RunMinDown(r - 1), e.Hnet[r]})     \* min over rows at or above r
      RunMinUp(r)   == IF r = n THEN e.Hnet[n] ELSE Min({RunMinUp(r + 1), e.Hnet[r]})       \* min over rows at or below r
  IN
  (IF Near(e.Qh, A.Qh, tol) /\ Near(e.Qc, A.Qc, tol) /\ Near(e.Qr, A.Qr, tol) THEN {} ELSE {"C01.targets"})
  \cup (IF \A r \in 1..n : /\ Near(e.Hhot[r], HotBelow(S, e.T[r], TRUE), tol)
                          /\ Near(e.Hcold[r], ColdBelow(S, e.T[r], TRUE) + A.Qc, tol)
        THEN {} ELSE {"C05.shifted_curves"})
  \cup (IF \A r \in 1..nr : /\ Near(e.HhotR[r], HotBelow(S, e.Tr[r], FALSE), tol)
                           /\ Near(e.HcoldR[r], ColdBelow(S, e.Tr[r], FALSE) + A.Qc, tol)
        THEN {} ELSE {"C05.real_curves"})
  \cup (IF /\ \A r \in 1..n : Near(e.Hnet[r], e.Hcold[r] - e.Hhot[r], 2) /\ e.Hnet[r] >= -tol
           /\ \E r \in 1..n : e.Hnet[r] <= tol
           /\ Near(e.HnetR[1], e.Hnet[1], tol) /\ Near(e.HnetR[nr], e.Hnet[n], tol)
        THEN {} ELSE {"C05.net_curve"})
  (* rows arrive rounded to 1e-4 K: two distinct rows closer than that (a projection next to a latent stream's bound) *)
  (* may coincide here; strict descent is judged on the unrounded insert events by ProblemTable!CallOK (C08)          *)
  \cup (IF /\ \A r \in 2..n : e.T[r-1] >= e.T[r] /\ Near(e.dT[r], e.T[r-1] - e.T[r], 1)
           /\ \A r \in 2..nr : e.Tr[r-1] >= e.Tr[r] /\ Near(e.dTr[r], e.Tr[r-1] - e.Tr[r], 1)
        THEN {} ELSE {"C05.interval_widths"})
  \cup (IF A.pinchAbsent THEN (IF e.hasPinch THEN {"C06.absent_expected"} ELSE {})
        ELSE IF ~e.hasPinch THEN {"C06.pinch_missing"}
        ELSE IF Near(e.hotPinch, A.hotPinch, 1) /\ Near(e.coldPinch, A.coldPinch, 1) THEN {} ELSE {"C06.pinch"})
  (* C07 on the table: rows above the hot pinch, between, below the cold pinch *)
  \cup (IF A.pinchAbsent THEN {}
        ELSE IF /\ \A r \in 1..n :
                     IF e.T[r] >= A.hotPinch - 1 THEN Near(e.NP[r], RunMinDown(r), tol)
                     ELSE IF e.T[r] <= A.coldPinch + 1 THEN Near(e.NP[r], RunMinUp(r), tol)
                     ELSE Near(e.NP[r], 0, tol)
                (* no missing closing breakpoint: between two consecutive rows the curve must not cross the running minimum *)
                /\ \A r \in 1..(n - 1) :
                     /\ (e.T[r + 1] >= A.hotPinch - 1 => ~(e.Hnet[r] > RunMinDown(r) + tol /\ e.Hnet[r + 1] < RunMinDown(r) - tol))
                     /\ (e.T[r] <= A.coldPinch + 1   => ~(e.Hnet[r + 1] > RunMinUp(r + 1) + tol /\ e.Hnet[r] < RunMinUp(r + 1) - tol))
             THEN {} ELSE {"C07.minorant_on_table"})
  \cup (IF /\ Near(e.NP[1], e.Hnet[1], tol) /\ Near(e.NP[n], e.Hnet[n], tol)
           /\ \A r \in 2..n : e.heat[r] <= e.heat[r-1] + tol /\ e.cool[r] <= e.cool[r-1] + tol
           /\ Near(e.heat[1], e.Qh, tol) /\ Near(e.heat[n], 0, tol) /\ Near(e.cool[1], 0, tol) /\ Near(e.cool[n], -e.Qc, tol)
        THEN {} ELSE {"C07.ends_and_load_profiles"})
  \cup (IF /\ Near(SumQ(LAMBDA u : u, e.hu), e.Qh, tol) /\ Near(SumQ(LAMBDA u : u, e.cu), e.Qc, tol)
           /\ \A j \in 1..Len(e.hu) : e.hu[j] >= -tol
           /\ \A j \in 1..Len(e.cu) : e.cu[j] >= -tol
        THEN {} ELSE {"C03.sums"})
  \cup (IF \A r \in 1..n : e.UT[r] >= -tol /\ e.UT[r] <= e.NP[r] + tol THEN {} ELSE {"C04.feasible_on_table"})

Init == l = 1
Next == /\ l <= Len(Trace)
        /\ LET f == EvFails(Trace[l]) IN f = {} \/ PrintT(<<"VERDICT", ToJson([id |-> Trace[l].id, fails |-> SetToSeq(f)])>>)
        /\ l' = l + 1
Spec == Init /\ [][Next]_l
TraceAccepted == TLCGet("stats").diameter - 1 = Len(Trace)
=============================================================================
