-------------------------- MODULE ServiceHistoryRef --------------------------
(* ServiceHistory (with its history variable, as used for exhaustive checking and for generating replay histories) *)
(* refines ServiceHistoryInd (the same machine without it, for which the properties are proved inductively).       *)
EXTENDS ServiceHistory
Ind == INSTANCE ServiceHistoryInd
RefinesInd == Ind!Spec
IndInvHolds == Ind!IndInv
=============================================================================
