------------------------------ MODULE CleanTol ------------------------------
(***************************************************************************)
(* clean_composite_curve (OpenPinch/utils/miscellaneous.py) NEAR its       *)
(* tolerance (property C17, first sentence).                               *)
(*                                                                         *)
(* CurveSimplify!Clean models the function on exact lattice polylines,     *)
(* where "collinear" is an exact statement.  Here every ordinate carries a *)
(* small perturbation, measured in units u chosen so that the code's       *)
(* tolerance 1e-6 K is TolNum/TolDen = 31/5 units -- a value no deviation  *)
(* on the lattice can hit (abscissae are 0..XMax <= 4, so                  *)
(* 5*|cross| = 31*|dx| has no solution): every comparison of the           *)
(* implementation has a margin of at least a fifth of a unit over |dx| and *)
(* the float code must take the same branch.                               *)
(*                                                                         *)
(* Implementation-shaped: the scan with                                    *)
(*   - the raw-neighbour test |y2 - y_interp| > tol,                       *)
(*   - the chord guard added by /repo commit de4565f (a point is dropped   *)
(*     only while every point dropped since the last kept one stays within *)
(*     tol of the chord to the next point),                                *)
(*   - end trimming and the two final end checks.                          *)
(* Definitional: every original point of the non-flat extent lies within   *)
(* tol (in temperature, at its enthalpy) of the kept polyline; kept points *)
(* are original points in the original order.                              *)
(*                                                                         *)
(* Mutants: RawOnly (behaviour before de4565f: removals add up) and        *)
(* CrossTol (seeded change C17b: the cross product itself is compared with *)
(* tol, which makes the test depend on the enthalpy unit 1/XDen; since     *)
(* de4565f the chord guard compensates for it, so it only shows together   *)
(* with RawOnly).                                                          *)
(*                                                                         *)
(* Mode "gen": enumerate, run the implementation-shaped scan, check the    *)
(* invariants, export cases.  Mode "judge": read real results (kept        *)
(* indices per curve) and evaluate the same definitional predicate.        *)
(***************************************************************************)
EXTENDS Integers, Sequences, FiniteSets, TLC, SequencesExt, FiniteSetsExt, Json, IOUtils

CONSTANTS Mode, MaxPts, MaxCoord, XMax, YU, Perts, TolNum, TolDen, XDen, DoEmit, RawOnly, CrossTol

VARIABLES curve, result, phase, l
vars == <<curve, result, phase, l>>

Abs(x) == IF x < 0 THEN -x ELSE x
X(c, i) == c[i][1]
Y(c, i) == c[i][2]

---------------------------------------------------------------------------
(* implementation-shaped *)
(* clean_composite_curve_ends: indices start..end of the input that survive the end trimming *)
EndsRange(c) ==
  LET n == Len(c) IN
  IF \A i \in 1..n : X(c, i) = X(c, 1) THEN <<1, 0>>
  ELSE << Min({ i \in 1..n : X(c, i) # X(c, 1) }) - 1, Max({ i \in 1..n : X(c, i) # X(c, n) }) + 1 >>

Cross(c, a, j, b) == (Y(c, j) - Y(c, a)) * (X(c, b) - X(c, a)) - (Y(c, b) - Y(c, a)) * (X(c, j) - X(c, a))
(* |y_j - chord(a, b)(x_j)| > tol, for X(a) # X(b) *)
OffChord(c, a, j, b) == TolDen * Abs(Cross(c, a, j, b)) > TolNum * Abs(X(c, b) - X(c, a))

RawKeep(c, i) ==
  IF X(c, i - 1) = X(c, i + 1) THEN X(c, i - 1) # X(c, i)
  ELSE IF CrossTol THEN TolDen * Abs(Cross(c, i - 1, i, i + 1)) > TolNum * XDen      \* area threshold: depends on the enthalpy unit
  ELSE OffChord(c, i - 1, i, i + 1)

ChordOK(c, last, i) ==         \* every point dropped since `last` (and i itself) stays on the chord last -> i+1
  \A j \in (last + 1)..i :
    IF X(c, last) = X(c, i + 1) THEN X(c, j) = X(c, last) ELSE ~OffChord(c, last, j, i + 1)

RECURSIVE Scan(_, _, _, _, _)
Scan(c, i, hi, last, acc) ==          \* interior indices lo+1..hi-1; acc = kept indices so far
  IF i >= hi THEN acc
  ELSE LET keep == RawKeep(c, i) \/ (~RawOnly /\ ~ChordOK(c, last, i))
       IN  IF keep THEN Scan(c, i + 1, hi, i, Append(acc, i)) ELSE Scan(c, i + 1, hi, last, acc)

KeptIdx(c) ==
  LET r == EndsRange(c)  lo == r[1]  hi == r[2] IN
  IF hi < lo THEN <<>>
  ELSE IF hi - lo + 1 <= 2 THEN [k \in 1..(hi - lo + 1) |-> lo + k - 1]
  ELSE LET k0 == Scan(c, lo + 1, hi, lo, <<lo>>) \o <<hi>>
           k1 == IF X(c, k0[1]) = X(c, k0[2]) THEN Tail(k0) ELSE k0
           m  == Len(k1)
       IN  IF m >= 2 /\ X(c, k1[m]) = X(c, k1[m - 1]) THEN SubSeq(k1, 1, m - 1) ELSE k1

---------------------------------------------------------------------------
(* definitional *)
NonFlat(c) == { i \in 1..Len(c) : ~(\A j \in 1..i : X(c, j) = X(c, 1)) /\ ~(\A j \in i..Len(c) : X(c, j) = X(c, Len(c))) }
Extent(c) == IF NonFlat(c) = {} THEN {} ELSE { i \in (Min(NonFlat(c)) - 1)..(Max(NonFlat(c)) + 1) : i >= 1 /\ i <= Len(c) }
(* point i within tol of the segment a-b of the kept polyline, measured in temperature at the point's enthalpy *)
NearSeg(c, i, a, b) ==
  IF X(c, a) = X(c, b) THEN X(c, i) = X(c, a) /\ Y(c, a) >= Y(c, i) /\ Y(c, i) >= Y(c, b)
  ELSE /\ Min({X(c, a), X(c, b)}) <= X(c, i) /\ X(c, i) <= Max({X(c, a), X(c, b)})
       /\ ~OffChord(c, a, i, b)
Fails(c, kept) ==
  LET E == Extent(c)  m == Len(kept) IN
  IF E = {} THEN (IF m <= 2 THEN {} ELSE {"C17.clean_flat_curve"})
  ELSE (IF m >= 2 /\ \A k \in 1..(m - 1) : kept[k] < kept[k + 1] THEN {} ELSE {"C17.clean_original_order"})
       \cup (IF m >= 2 /\ \A i \in E : \E k \in 1..(m - 1) : NearSeg(c, i, kept[k], kept[k + 1]) THEN {} ELSE {"C17.clean_same_function"})

C17_CleanWithinTol == phase = "done" => Fails(curve, result) = {}

---------------------------------------------------------------------------
Coords == 0..MaxCoord
Trace == IF Mode = "judge" THEN JsonDeserialize(IOEnv.TRACE_FILE) ELSE <<>>

Init ==
  /\ l = 1 /\ result = <<>>
  /\ IF Mode = "judge" THEN curve = <<>> /\ phase = "judge"
     ELSE /\ phase = "start"
          /\ \E n \in 3..MaxPts : \E Ys \in SUBSET Coords : \E xs \in [1..n -> 0..XMax] : \E ds \in [1..n -> Perts] :
                /\ Cardinality(Ys) = n
                /\ curve = LET ys == SetToSortSeq(Ys, LAMBDA a, b : a > b) IN [i \in 1..n |-> <<xs[i], YU * ys[i] + ds[i]>>]
Run == /\ phase = "start" /\ result' = KeptIdx(curve) /\ phase' = "done" /\ UNCHANGED <<curve, l>>
Judge == /\ phase = "judge" /\ l <= Len(Trace)
         /\ LET f == Fails(Trace[l].curve, Trace[l].kept)
            IN  f = {} \/ PrintT(<<"VERDICT", ToJson([id |-> Trace[l].id, fails |-> SetToSeq(f)])>>)
         /\ l' = l + 1 /\ UNCHANGED <<curve, result, phase>>
Next == Run \/ Judge
Spec == Init /\ [][Next]_vars
EmitCase == (DoEmit /\ phase = "done") => PrintT(<<"CASE", ToJson([curve |-> curve, kept |-> result])>>)
TraceAccepted == Mode # "judge" \/ TLCGet("stats").diameter - 1 = Len(Trace)
=============================================================================
