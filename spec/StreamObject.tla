---------------------------- MODULE StreamObject ----------------------------
(***************************************************************************)
(* OpenPinch/classes/stream.py: a Stream under every sequence of attribute *)
(* assignments (property C19, first half).                                 *)
(*                                                                         *)
(* State = the private attributes of the object.  One action per public    *)
(* setter; _update_attributes is transcribed branch by branch (including   *)
(* the "supply == target" rule that REWRITES the target by 1 lattice unit  *)
(* = 0.01 K, and the branch that does nothing when the duty is zero).      *)
(* Temperatures / duties are integers; CP, htr and rCP are exact rationals.*)
(***************************************************************************)
EXTENDS Integers, Sequences, FiniteSets, TLC, Json, Rational

CONSTANTS TVals, QVals, DVals, HVals, MaxOps, DoEmit,
          KindSticky,      \* mutant: kind assigned only at the first classification (defect fixed by 729d008)
          HtrStale         \* mutant: the htc setter does not recompute the resistance

VARIABLES s, hist
vars == <<s, hist>>

Abs_(x) == IF x < 0 THEN -x ELSE x

(* _set_hot/_cold_stream_min_max_temperatures *)
AsHot(r)  == [r EXCEPT !.tmin = r.tt, !.tmax = r.ts, !.tminS = r.tt - r.dtc, !.tmaxS = r.ts - r.dtc,
                       !.kind = IF KindSticky /\ r.kind # "none" THEN r.kind ELSE "Hot"]
AsCold(r) == [r EXCEPT !.tmin = r.ts, !.tmax = r.tt, !.tminS = r.ts + r.dtc, !.tmaxS = r.tt + r.dtc,
                       !.kind = IF KindSticky /\ r.kind # "none" THEN r.kind ELSE "Cold"]

(* _calc_htr_and_cp_product (htc > 0 in this model) *)
HtrRcp(r) == [r EXCEPT !.htr = Norm(1, r.htc), !.rcp = RMul(r.cp, Norm(1, r.htc))]

(* _update_attributes *)
Update(r) ==
  LET r1 == IF r.ts > r.tt THEN AsHot(r)
            ELSE IF r.ts < r.tt THEN AsCold(r)
            ELSE IF r.q > 0 THEN AsCold([r EXCEPT !.tt = r.ts + 1])
            ELSE IF r.q < 0 THEN AsHot([r EXCEPT !.tt = r.ts - 1])
            ELSE r                                       \* zero duty, equal temperatures: nothing is recomputed
      r2 == [r1 EXCEPT !.cp = Norm(r1.q, r1.tmax - r1.tmin)]
  IN  HtrRcp(r2)

New(ts, tt, q, d, h) ==
  Update([ts |-> ts, tt |-> tt, q |-> q, dtc |-> d, htc |-> h, kind |-> "none",
          tmin |-> 0, tmax |-> 0, tminS |-> 0, tmaxS |-> 0, cp |-> RZero, htr |-> Norm(1, h), rcp |-> RZero])

Init ==
  /\ \E ts \in TVals, tt \in TVals, q \in QVals, d \in DVals, h \in HVals :
        /\ ~(ts = tt /\ q = 0)                           \* the constructor itself raises for this input
        /\ s = New(ts, tt, q, d, h)
        /\ hist = << <<"new", <<ts, tt, q, d, h>>>> >>

Op(name, v, r) == /\ Len(hist) < MaxOps + 1
                  /\ s' = r
                  /\ hist' = Append(hist, <<name, v>>)

SetTs  == \E v \in TVals : Op("t_supply", v, Update([s EXCEPT !.ts = v]))
SetTt  == \E v \in TVals : Op("t_target", v, Update([s EXCEPT !.tt = v]))
SetQ   == \E v \in QVals : Op("heat_flow", v, Update([s EXCEPT !.q = v]))
SetD   == \E v \in DVals : Op("dt_cont", v, Update([s EXCEPT !.dtc = v]))
SetH   == \E v \in HVals : Op("htc", v, IF HtrStale THEN [Update([s EXCEPT !.htc = v]) EXCEPT !.htr = s.htr]
                                                ELSE Update([s EXCEPT !.htc = v]))
(* set_heat_flow: CP from |t_supply - t_target| and rCP, NOT through _update_attributes *)
SetHF  == \E v \in QVals :
            Op("set_heat_flow", v,
               IF Abs_(s.ts - s.tt) > 0
               THEN LET c == Norm(v, Abs_(s.ts - s.tt))
                    IN  [s EXCEPT !.q = v, !.cp = c, !.rcp = RMul(s.htr, c)]
               ELSE [s EXCEPT !.q = v])

Next == SetTs \/ SetTt \/ SetQ \/ SetD \/ SetH \/ SetHF
Spec == Init /\ [][Next]_vars

---------------------------------------------------------------------------
(* C19 statement *)
DutyClosed == RMulI(s.cp, s.tmax - s.tmin) = R(s.q)
Ordered    == s.tmin <= s.tmax
ShiftByKind ==
  IF s.kind = "Hot" THEN s.tminS = s.tmin - s.dtc /\ s.tmaxS = s.tmax - s.dtc
  ELSE s.tminS = s.tmin + s.dtc /\ s.tmaxS = s.tmax + s.dtc
Reciprocal == s.htr = Norm(1, s.htc)

(* known finding KF-C19-dead: the object sits in the zero-duty, equal-temperature state in which  *)
(* _update_attributes recomputes nothing (or got its duty back through set_heat_flow from there) *)
Dead == s.ts = s.tt

C19_Duty    == DutyClosed \/ Dead
C19_Ordered == Ordered
C19_Shift   == ShiftByKind \/ Dead
C19_Recip   == Reciprocal

(* strict variants, used only to show that the carve-out is non-empty (TLC must violate them) *)
C19_DutyStrict  == DutyClosed
C19_ShiftStrict == ShiftByKind

EmitCase == (DoEmit /\ Len(hist) = MaxOps + 1) => PrintT(<<"CASE", ToJson([hist |-> hist, s |-> s])>>)
=============================================================================
