--------------------------- MODULE DefaultUtility ---------------------------
(***************************************************************************)
(* The default-utility decision of data preparation (property C03: "when   *)
(* the supplied utilities cannot cover the whole range, default utilities  *)
(* are added so that the sums still close").                               *)
(*                                                                         *)
(* Transcribes OpenPinch/analysis/data_preparation.py                      *)
(*   _find_extreme_process_temperatures  (HU_T_min = highest shifted cold  *)
(*        temperature, CU_T_max = lowest shifted hot temperature; the      *)
(*        sentinels -1e9 / +1e9 when a side is empty),                     *)
(*   _complete_utility_data  as a loop, one utility per step: isothermal   *)
(*        entries get the phase-change glide (hot: down, cold: up), then   *)
(*        the two sufficiency tests clear the flags,                       *)
(*   _add_default_utilities / _create_default_utility  (placed beyond the  *)
(*        extreme temperature by DT_CONT, glide pointing outwards).        *)
(*                                                                         *)
(* Definitional: on the shifted scale a hot utility occupies               *)
(* [min(ts,tt) - d, max(ts,tt) - d], a cold one [min + d, max + d].  A     *)
(* default hot utility is needed iff no active hot (or Both) utility lies  *)
(* wholly at or above HU_T_min; a default cold one iff no active cold (or  *)
(* Both) utility lies wholly at or below CU_T_max.  After completion each  *)
(* non-empty side has a utility that reaches its extreme temperature.      *)
(*                                                                         *)
(* The code's cold test SUBTRACTS the contribution (constant               *)
(* ColdSignAsCoded = TRUE is the code, FALSE the corrected test): known    *)
(* finding KF-C03-cold-utility-contribution.  DU_Decisions allows exactly  *)
(* that class (predicate KFSign), DU_Strict must be violated with the      *)
(* code's sign and must hold with the corrected one.                       *)
(* Mutant HotSignFlipped: the same mistake on the hot side (must be        *)
(* rejected by DU_Decisions).                                              *)
(***************************************************************************)
EXTENDS Integers, Sequences, FiniteSets, TLC, Json, SequencesExt, FiniteSetsExt

CONSTANTS Temps,          \* stream temperatures
          StreamDTCs,     \* stream contributions
          Levels,         \* utility levels (real temperatures)
          UtilDTCs,       \* utility contributions
          MaxUtils, DtCont, DtPhase,
          ColdSignAsCoded, HotSignFlipped, DoEmit

VARIABLES S,        \* streams: [k : {"H","C"}, lo, hi, dtc]
          U,        \* utilities as in the request: [type, ts, tt, dtc, active]
          k,        \* loop index
          addHU, addCU,
          phase
vars == <<S, U, k, addHU, addCU, phase>>

Big == 1000000
HotS == { i \in 1..Len(S) : S[i].k = "H" }
ColdS == { i \in 1..Len(S) : S[i].k = "C" }
CUTmax == IF HotS = {} THEN Big ELSE Min({ S[i].lo - S[i].dtc : i \in HotS })       \* lowest shifted hot temperature
HUTmin == IF ColdS = {} THEN -Big ELSE Max({ S[i].hi + S[i].dtc : i \in ColdS })    \* highest shifted cold temperature

(* "Set Defaults": an isothermal entry gets the phase-change glide *)
Completed(u) == IF u.tt = u.ts THEN [u EXCEPT !.tt = IF u.type = "Hot" THEN u.ts - DtPhase ELSE u.ts + DtPhase] ELSE u
IsHot(u) == u.type \in {"Hot", "Both"} /\ u.active
IsCold(u) == u.type \in {"Cold", "Both"} /\ u.active
LoT(u) == IF u.ts < u.tt THEN u.ts ELSE u.tt
HiT(u) == IF u.ts < u.tt THEN u.tt ELSE u.ts

(* the code's tests *)
HotTest(u) == IsHot(u) /\ (IF HotSignFlipped THEN LoT(u) + u.dtc ELSE LoT(u) - u.dtc) >= HUTmin
ColdTest(u) == IsCold(u) /\ (IF ColdSignAsCoded THEN HiT(u) - u.dtc ELSE HiT(u) + u.dtc) <= CUTmax

(* definitional *)
HotReaches(u) == IsHot(u) /\ LoT(u) - u.dtc >= HUTmin
ColdReaches(u) == IsCold(u) /\ HiT(u) + u.dtc <= CUTmax
NeedHU == ~\E j \in 1..Len(U) : HotReaches(Completed(U[j]))
NeedCU == ~\E j \in 1..Len(U) : ColdReaches(Completed(U[j]))
KFSign == \E j \in 1..Len(U) : LET u == Completed(U[j]) IN
            IsCold(u) /\ u.dtc > 0 /\ HiT(u) - u.dtc <= CUTmax /\ CUTmax < HiT(u) + u.dtc

DefaultHU == [type |-> "Hot", ts |-> HUTmin + DtCont + DtPhase, tt |-> HUTmin + DtCont, dtc |-> DtCont, active |-> TRUE]
DefaultCU == [type |-> "Cold", ts |-> CUTmax - DtCont - DtPhase, tt |-> CUTmax - DtCont, dtc |-> DtCont, active |-> TRUE]
Final == [j \in 1..Len(U) |-> Completed(U[j])] \o (IF addHU THEN <<DefaultHU>> ELSE <<>>) \o (IF addCU THEN <<DefaultCU>> ELSE <<>>)

---------------------------------------------------------------------------
StreamU == { [k |-> kk, lo |-> a, hi |-> b, dtc |-> d] : kk \in {"H", "C"}, a \in Temps, b \in Temps, d \in StreamDTCs }
UtilU == { [type |-> ty, ts |-> a, tt |-> b, dtc |-> d, active |-> ac] :
             ty \in {"Hot", "Cold", "Both"}, a \in Levels, b \in Levels, d \in UtilDTCs, ac \in BOOLEAN }

Init ==
  /\ \E s1 \in StreamU, s2 \in StreamU : s1.lo < s1.hi /\ s2.lo < s2.hi /\ S = <<s1, s2>>
  /\ \E n \in 0..MaxUtils : \E us \in [1..n -> UtilU] :
        /\ \A j \in 1..n : (us[j].ts = us[j].tt \/ us[j].dtc = 0)            \* glides only with a zero contribution (keeps the space small)
        /\ \A j \in 1..(n - 1) : us[j].ts <= us[j + 1].ts                    \* order in the request is irrelevant to the decision
        /\ U = us
  /\ k = 1 /\ addHU = TRUE /\ addCU = TRUE /\ phase = "loop"

Step ==
  /\ phase = "loop"
  /\ IF k > Len(U) THEN phase' = "done" /\ UNCHANGED <<k, addHU, addCU>>
     ELSE LET u == Completed(U[k]) IN
          /\ addHU' = (addHU /\ ~HotTest(u))
          /\ addCU' = (addCU /\ ~ColdTest(u))
          /\ k' = k + 1 /\ UNCHANGED phase
  /\ UNCHANGED <<S, U>>
Next == Step
Spec == Init /\ [][Next]_vars

Done == phase = "done"
DU_Decisions == Done => /\ addHU = NeedHU
                        /\ (addCU = NeedCU \/ (KFSign /\ ~addCU /\ NeedCU))
DU_Strict == Done => addHU = NeedHU /\ addCU = NeedCU
(* completeness: every non-empty side ends with a utility that reaches its extreme temperature (outside the finding) *)
DU_Covered == Done => /\ (ColdS # {} => \E j \in 1..Len(Final) : HotReaches(Final[j]))
                      /\ (HotS # {} /\ ~KFSign => \E j \in 1..Len(Final) : ColdReaches(Final[j]))
(* defaults are added only when needed: never a default next to a sufficient supplied utility *)
DU_NoSuperfluousDefault == Done => (addHU => NeedHU) /\ (addCU => NeedCU)

EmitCase == (DoEmit /\ Done) =>
  PrintT(<<"CASE", ToJson([S |-> S, ladder |-> U, needHU |-> NeedHU, needCU |-> NeedCU, implHU |-> addHU, implCU |-> addCU,
                           kf |-> (KFSign /\ ~addCU /\ NeedCU), huTmin |-> HUTmin, cuTmax |-> CUTmax])>>)
=============================================================================
