------------------------------ MODULE SiteGen ------------------------------
(***************************************************************************)
(* Generator and oracle module for service-level properties (C02, C09,     *)
(* C12, C13, C14): TLC enumerates every small SITE problem (streams x zone *)
(* assignment x utility ladder supplied in the request) together with its  *)
(* equivalent descriptions under the transformation group of C12           *)
(* (permutation, split at a temperature, parallel split, zone renaming,    *)
(* translation, duty scaling, mirroring of the temperature axis), and the  *)
(* definitional targets of every zone and of the site.  The harness runs   *)
(* the real service on every description; spec/TraceSite.tla judges the    *)
(* recorded outputs.                                                       *)
(***************************************************************************)
EXTENDS CascadeDefs

CONSTANTS MaxStreams, NZones, Ladders, DoEmit,
          Shard, NShards     \* only multisets whose index sum is Shard modulo NShards (1 = all): the deep configuration is too large to export whole

VARIABLES inp, phase
vars == <<inp, phase>>

(* utility ladders as they appear in the REQUEST (real temperatures, dt_cont 0): *)
(*   ty in {"Hot","Cold","Both"}; ts = tt means isothermal (the code adds the    *)
(*   phase-change glide itself)                                                  *)
RUt(nm, ty, ts, tt) == [name |-> nm, type |-> ty, ts |-> ts, tt |-> tt, active |-> TRUE, dtc |-> 0]
RUtd(nm, ty, ts, tt, d) == [RUt(nm, ty, ts, tt) EXCEPT !.dtc = d]      \* a utility with its own contribution
Ladder(o) ==
  CASE o = 0 -> <<>>                                                       \* defaults only
    [] o = 1 -> << RUt("LPS", "Both", TMin + 150, TMin + 150) >>            \* generation and use at one level
    [] o = 2 -> << RUt("MPS", "Hot", TMin + 150, TMin + 150),               \* use below ...
                   RUt("GEN", "Cold", TMin + 200, TMin + 210) >>            \* ... generation: recovery through the utility system
    [] o = 3 -> << RUt("USE", "Hot", TMin + 150, TMin + 140),               \* generation 0.4 K below use: no recovery possible,
                   RUt("GEN", "Cold", TMin + 100, TMin + 110) >>            \*   but inside the 1 K matching window (native embedding)
    [] o = 4 -> << RUt("HW", "Hot", TMin + 250, TMin + 150),                \* gliding utilities
                   RUt("CW", "Cold", TMin - 100, TMin - 50) >>
    [] o = 6 -> << [RUt("CWoff", "Cold", TMin - 100, TMin - 90) EXCEPT !.active = FALSE],   \* listed but switched off: must be ignored
                   [RUt("HPoff", "Hot", TMax + 200, TMax + 190) EXCEPT !.active = FALSE],
                   RUt("AIR", "Cold", TMin + 150, TMin + 160) >>                            \* an active cold utility that is too warm
    [] o = 7 -> << RUt("HW", "Hot", TMin + 150, TMin + 250),                \* a gliding hot utility entered "backwards" (supply below
                   RUt("CW", "Cold", TMin - 100, TMin - 50) >>              \*   target): accepted and normalised by the library (seed C03d)
    [] o = 8 -> << RUt("HPS", "Hot", TMin + 250, TMin + 250),               \* two hot utilities with one and the same supply temperature
                   RUt("OIL", "Hot", TMin + 250, TMin + 150),               \*   (seed C09d)
                   RUt("CW", "Cold", TMin - 100, TMin - 50) >>
    [] o = 10 -> << RUt("LPS", "Both", TMin + 150, TMin + 150),             \* a header used and fed at one level, with a SECOND generator
                    RUtd("GEN2", "Cold", TMin + 150, TMin + 150, 50) >>     \*   exporting into it (larger contribution: both carry duty) -- seed C02a
    [] o = 11 -> << RUtd("CWd", "Cold", TMin - 50, TMin - 50, 100) >>      \* a cold utility whose own contribution lifts its level INTO the
                                                                           \*   process range: real -50, shifted +50 (KF-C03-cold-utility-contribution)
    [] o = 9 -> << RUt("HWL", "Hot", TMin + 150, TMin + 50) >>              \* a hot-water loop gliding through the process range below the
                                                                           \*   (default) top level: slope-limited against a convex GCC (seed C12e)
    [] o = 5 -> << RUt("USE", "Hot", TMin + 30, TMin + 20),                 \* for the fine lattice {120,130,140}: use at 150->140,
                   RUt("GEN", "Cold", TMin - 20, TMin - 10) >>              \*   generation at 100->110 (0.4 K below, inside the 1 K window)

(* ---- transformation group (definitional) ---- *)
Rev(s) == [i \in 1..Len(s) |-> s[Len(s) + 1 - i]]
Wide(S) == { i \in 1..Len(S) : S[i].hi - S[i].lo >= 200 }
Thick(S) == { i \in 1..Len(S) : S[i].cp >= 2 /\ S[i].hi - S[i].lo > 1 }
Twin(S)  == { i \in 1..Len(S) : S[i].cp = 2 /\ S[i].hi - S[i].lo > 1 }       \* splits into two EQUAL branches
SplitAtBy(S, z, i, d) ==     \* stream i cut at the temperature lo + d
  [ S |-> SubSeq(S, 1, i - 1) \o << [S[i] EXCEPT !.hi = S[i].lo + d], [S[i] EXCEPT !.lo = S[i].lo + d] >> \o SubSeq(S, i + 1, Len(S)),
    z |-> SubSeq(z, 1, i - 1) \o << z[i], z[i] >> \o SubSeq(z, i + 1, Len(z)) ]
SplitAt(S, z, i) == SplitAtBy(S, z, i, 100)      \* at a lattice temperature (usually an existing table row)
Parallel(S, z, i) ==    \* stream i divided into two parallel branches of the same range
  [ S |-> SubSeq(S, 1, i - 1) \o << [S[i] EXCEPT !.cp = 1], [S[i] EXCEPT !.cp = S[i].cp - 1] >> \o SubSeq(S, i + 1, Len(S)),
    z |-> SubSeq(z, 1, i - 1) \o << z[i], z[i] >> \o SubSeq(z, i + 1, Len(z)) ]
MirrorC == TMin + TMax        \* T -> MirrorC - T
Mirror(S) == [i \in 1..Len(S) |-> [k |-> IF S[i].k = "H" THEN "C" ELSE "H", lo |-> MirrorC - S[i].hi, hi |-> MirrorC - S[i].lo,
                                    cp |-> S[i].cp, dtc |-> S[i].dtc]]

Variants(S, z, lo) ==
  << [g |-> "perm", S |-> Rev(S), z |-> Rev(z), lo |-> lo] >>
  \* the two pieces keep the parent's NAME (twin = position of the first piece; the harness also calls the stream after them
  \* "<name>_2", the key a renamed duplicate would like to take: seeded change C12h)
  \o (IF Wide(S) # {} THEN << [g |-> "split"] @@ SplitAt(S, z, Min(Wide(S))) @@ [lo |-> lo, twin |-> Min(Wide(S))] >> ELSE <<>>)
  \* cut off the lattice (lo + 130): the cut adds a table row of its own (seed C12e)
  \o (IF Wide(S) # {} THEN << [g |-> "split2"] @@ SplitAtBy(S, z, Max(Wide(S)), 130) @@ [lo |-> lo] >> ELSE <<>>)
  \o (IF Thick(S) # {} THEN << [g |-> "parallel"] @@ Parallel(S, z, Min(Thick(S))) @@ [lo |-> lo] >> ELSE <<>>)
  \o << [g |-> "zoneswap", S |-> S, z |-> [i \in 1..Len(z) |-> IF z[i] = 1 THEN 2 ELSE IF z[i] = 2 THEN 1 ELSE z[i]], lo |-> lo] >>
  \o << [g |-> "nest", S |-> S, z |-> z, lo |-> lo] >>          \* zone 2 labelled "Z2/U2/V2": three process levels deep
  \o << [g |-> "dup", S |-> S, z |-> z, lo |-> lo] >>           \* zone k labelled "A<k>/X": the same leaf name in different branches
  \* explicit zone tree Site -> {Z1, Z2, ...}; a stream of CP 2 is entered as two identical rows (same name, CP 1 each): seed C12d
  \o (IF Twin(S) # {} THEN << [g |-> "tree"] @@ Parallel(S, z, Min(Twin(S))) @@ [lo |-> lo, twin |-> Min(Twin(S))] >>
                       ELSE << [g |-> "tree", S |-> S, z |-> z, lo |-> lo, twin |-> 0] >>)
  \* the explicit flat zone tree with its children listed in the reverse order ("zones listed in another order", user tree)
  \o << [g |-> "treerev", S |-> S, z |-> z, lo |-> lo] >>
  \* explicit zone tree with a site inside the site:  Site -> { North (a site) -> {Z1}, Z2, ... }  (seed C02d)
  \o << [g |-> "subsite", S |-> S, z |-> z, lo |-> lo] >>
  \* the same site below a root that is not targeted itself:  Town (a community) -> { Site -> {Z1, Z2, ...} }  (seed C13e)
  \o << [g |-> "community", S |-> S, z |-> z, lo |-> lo] >>
  \* the same site directly below a region (no community level):  Land (a region) -> { Site -> {Z1, Z2, ...} }
  \o << [g |-> "region", S |-> S, z |-> z, lo |-> lo] >>
  \* two identical parallel branches handed over as ONE schema object listed twice in a validated request model
  \o (IF Twin(S) # {} THEN << [g |-> "twinobj"] @@ Parallel(S, z, Min(Twin(S))) @@ [lo |-> lo, twin |-> Min(Twin(S))] >> ELSE <<>>)
  \* the same problem with unit-operation zones targeted as well (option DO_DIRECT_OPERATION_TARGETING): the site and
  \* process-zone records must not change (seed C09e)
  \o << [g |-> "ops", S |-> S, z |-> z, lo |-> lo] >>
  \o << [g |-> "translate", S |-> S, z |-> z, lo |-> lo] >>
  \o << [g |-> "scale", S |-> S, z |-> z, lo |-> lo] >>
  \o (IF lo = 0 THEN << [g |-> "mirror", S |-> Mirror(S), z |-> z, lo |-> lo] >> ELSE <<>>)

Init ==
  /\ ForEachMultiset(MaxStreams, LAMBDA f : \E lo \in Ladders : \E z \in [1..Len(f) -> 1..NZones] :
        /\ IdxSum(f) % NShards = Shard
        /\ z[1] = 1
        /\ inp = [S |-> [i \in 1..Len(f) |-> USeq[f[i]]], z |-> z, lo |-> lo])
  /\ phase = "new"

Emit == /\ phase = "new" /\ phase' = "emitted" /\ UNCHANGED inp
Next == Emit
Spec == Init /\ [][Next]_vars

ZoneIdx(z, k) == SetToSortSeq({ i \in 1..Len(z) : z[i] = k }, LAMBDA a, b : a < b)
CaseRec ==
  [ S |-> inp.S, z |-> inp.z, lo |-> inp.lo, ladder |-> Ladder(inp.lo), mirrorC |-> MirrorC,
    variants |-> Variants(inp.S, inp.z, inp.lo) ]
EmitCase == (DoEmit /\ phase = "emitted") => PrintT(<<"CASE", ToJson(CaseRec)>>)
=============================================================================
