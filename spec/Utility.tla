------------------------------ MODULE Utility ------------------------------
(***************************************************************************)
(* Multi-utility targeting (OpenPinch/analysis/utility_targeting.py),      *)
(* properties C03 and C04 (and the utility half of C02).                   *)
(*                                                                         *)
(* Input: a multiset of lattice streams (CascadeDefs universe) and a       *)
(* utility ladder.  The pocket-free grand composite at the table rows is   *)
(* taken from the definitional minorant (the sweep itself is C07's         *)
(* machine, Pockets.tla); from there the machine is implementation-shaped: *)
(* one action per utility, in the code's order (hot: lowest supply first;  *)
(* cold: highest supply first), each computing _maximise_utility_duty with *)
(* the code's masks and row pairing, the code's break condition, and the   *)
(* utility cascade.                                                        *)
(*                                                                         *)
(* Definitional side: sums close (C03), feasibility 0 <= U(T) <= NP(T) at  *)
(* every breakpoint of either curve (C04, sufficient: both are piecewise   *)
(* linear and the only breakpoints of NP that are not stream breakpoints   *)
(* are concave), and for isothermal ladders with distinct levels the       *)
(* closed-form lowest-grade-first optimum.  In the tiny config TLC also    *)
(* proves the closed form maximal by brute force over integer duties.      *)
(***************************************************************************)
EXTENDS CascadeDefs, Rational

CONSTANTS
  MaxStreams,
  HotOpts, ColdOpts,   \* sets of ladder option numbers (see HotLadder / ColdLadder)
  DoEmit,
  PairSameRow,         \* TRUE: the corrected slope bound (row enthalpy paired with the same row's temperature,
                       \*       flat intervals kept) -- shows what a repair would have to do; FALSE = the code
  ColdWraps,           \* mutant: cold segment slice wraps around when the cold pinch is row 0 (defect fixed by 4d716f9)
  NoBreak,             \* mutant: loop does not stop when the segment limit is reached
  BruteForce           \* TRUE: additionally check maximality of the closed form by brute force (tiny config only)

VARIABLES inp, phase, k, assigned, hotQ, coldQ
vars == <<inp, phase, k, assigned, hotQ, coldQ>>

---------------------------------------------------------------------------
(* utility ladders: shifted supply/target are hi/lo (hot) resp. lo/hi (cold); dtc = 0 so real = shifted *)
UtH(lo, hi) == [k |-> "H", lo |-> lo, hi |-> hi, cp |-> 0, dtc |-> 0]
UtC(lo, hi) == [k |-> "C", lo |-> lo, hi |-> hi, cp |-> 0, dtc |-> 0]
(* a utility with its own contribution d: lo/hi stay the SHIFTED levels, the real ones are d further out *)
UtHd(lo, hi, d) == [k |-> "H", lo |-> lo, hi |-> hi, cp |-> 0, dtc |-> d]
UtCd(lo, hi, d) == [k |-> "C", lo |-> lo, hi |-> hi, cp |-> 0, dtc |-> d]
HUtop == UtH(TMax + 190, TMax + 200)
CUbot == UtC(TMin - 200, TMin - 190)
(* isothermal levels sit so that the 10-unit glide contains no lattice breakpoint (multiples of 50) *)
HotLadder(o) ==
  CASE o = 0 -> <<HUtop>>
    [] o = 1 -> <<HUtop, UtH(TMin + 140, TMin + 150)>>
    [] o = 2 -> <<HUtop, UtH(TMin + 240, TMin + 250), UtH(TMin + 90, TMin + 100)>>
    [] o = 3 -> <<HUtop, UtH(TMin + 100, TMin + 300)>>                       \* 200-unit glide
    [] o = 4 -> <<HUtop, UtH(TMin + 190, TMin + 200), UtH(TMin + 50, TMin + 150)>>   \* isothermal + 100-unit glide
    [] o = 6 -> <<HUtop, UtH(TMin + 140, TMin + 150), UtH(TMin + 140, TMin + 150)>>   \* two utilities at one level (seeded change C04c)
    [] o = 7 -> <<HUtop, UtHd(TMin + 140, TMin + 150, 100), UtH(TMin + 190, TMin + 200)>>   \* real order (250 > 200) opposite to the shifted one (150 < 200)
    [] o = 8 -> <<HUtop, UtH(TMin + 150, TMin + 160)>>    \* target level exactly ON a breakpoint (a possible pinch): tie in the reach test (seeded change C04d)
    [] o = 5 -> <<UtH(TMin - 300, TMin - 290)>>   \* only a hot utility BELOW everything (where the service puts the
                                                  \* default HU of a problem without cold streams): top row is a process row
ColdLadder(o) ==
  CASE o = 0 -> <<CUbot>>
    [] o = 1 -> <<CUbot, UtC(TMin + 100, TMin + 110)>>
    [] o = 2 -> <<CUbot, UtC(TMin + 50, TMin + 60), UtC(TMin + 200, TMin + 210)>>
    [] o = 3 -> <<CUbot, UtC(TMin, TMin + 200)>>
    [] o = 4 -> <<CUbot, UtC(TMin + 100, TMin + 110), UtC(TMin + 150, TMin + 250)>>
    [] o = 6 -> <<CUbot, UtC(TMin + 100, TMin + 110), UtC(TMin + 100, TMin + 110)>>   \* two utilities at one level
    [] o = 7 -> <<CUbot, UtCd(TMin + 100, TMin + 110, 100), UtC(TMin + 50, TMin + 60)>>     \* real order (0 < 50) opposite to the shifted one (100 > 50)
    [] o = 8 -> <<CUbot, UtC(TMin + 40, TMin + 50)>>      \* target level exactly on a breakpoint
    [] o = 5 -> <<UtC(TMax + 290, TMax + 300)>>   \* only a cold utility ABOVE everything (default CU of a problem without hot streams)

Sup(u) == IF u.k = "H" THEN u.hi ELSE u.lo      \* shifted supply level
Tar(u) == IF u.k = "H" THEN u.lo ELSE u.hi      \* shifted target level
Glide(u) == u.hi - u.lo
RealSup(u) == IF u.k = "H" THEN u.hi + u.dtc ELSE u.lo - u.dtc      \* real supply temperature
(* the code's iteration order: the utility list is sorted by REAL t_supply descending; hot walks it reversed *)
HotOrder(U)  == SortSeq(U, LAMBDA a, b : RealSup(a) < RealSup(b))
ColdOrder(U) == SortSeq(U, LAMBDA a, b : RealSup(a) > RealSup(b))
(* the order the statement speaks of: grade on the SHIFTED scale (lowest hot level / hottest cold level first) *)
HotGrade(U)  == SortSeq(U, LAMBDA a, b : Sup(a) < Sup(b))
ColdGrade(U) == SortSeq(U, LAMBDA a, b : Sup(a) > Sup(b))

---------------------------------------------------------------------------
(* the zone's pocket-free GCC at the table rows, from the definitional side.           *)
(* Everything derived from the input is computed ONCE in Init and stored in inp (TLC   *)
(* re-evaluates state-dependent definitions at every mention).                        *)
Derived(S, HU, CU) ==
  LET A    == Analysis(S)
      ut   == { u.lo : u \in ToSet(HU) \cup ToSet(CU) } \cup { u.hi : u \in ToSet(HU) \cup ToSet(CU) }
      brk  == Breaks(S, TRUE)
      rs   == brk \cup ut
      rows == SetToSortSeq(rs, LAMBDA a, b : a > b)
      has  == ~A.pinchAbsent
      res  == [T \in rs |-> A.Qh - Deficit(S, T)]
      (* greatest monotone minorant of the residual on each side of the pinch, zero between the pinches *)
      np   == [T \in rs |->
                IF ~has THEN res[T]
                ELSE IF T >= A.hotPinch  THEN Min({res[T]} \cup { res[b] : b \in { c \in brk : c >= T } })
                ELSE IF T <= A.coldPinch THEN Min({res[T]} \cup { res[b] : b \in { c \in brk : c <= T } })
                ELSE 0]
  IN  [A |-> A, rowSet |-> rs, rows |-> rows, brk |-> brk, has |-> has, np |-> np]

S_  == inp.S
HU_ == inp.HU
CU_ == inp.CU
A_  == inp.D.A
RowSet == inp.D.rowSet
Rows   == inp.D.rows
NR     == Len(Rows)
HasPinch == inp.D.has
NP(T) == inp.D.np[T]
HeatProf(T) == IF HasPinch /\ T >= A_.hotPinch  THEN NP(T) ELSE 0       \* H_cold_net
CoolProf(T) == IF HasPinch /\ T <= A_.coldPinch THEN NP(T) ELSE 0       \* |H_hot_net|
(* rows of the hot / cold pinch in the table (0-based like the code) *)
RowOf(T) == CHOOSE r \in 0..(NR - 1) : Rows[r + 1] = T

---------------------------------------------------------------------------
(* IMPLEMENTATION-SHAPED: _maximise_utility_duty over a segment (sequences Tseg, Hseg) *)
RInf == <<1, 0>>                      \* +infinity marker (d = 0)
RMinI(a, b) == IF a[2] = 0 THEN b ELSE IF b[2] = 0 THEN a ELSE RMin(a, b)

MaxDuty(Tseg, Hseg, Ts, Tt, isHot, asg) ==
  IF Len(Tseg) < 2 THEN RZero
  ELSE
  LET m == Len(Tseg) - 1
      upT(j) == Tseg[j]          lowT(j) == Tseg[j + 1]
      upH(j) == Hseg[j]          lowH(j) == Hseg[j + 1]
      curT(j) == IF isHot THEN lowT(j) ELSE upT(j)
      adjT(j) == IF isHot THEN upT(j)  ELSE lowT(j)
      curH(j) == IF isHot THEN lowH(j) ELSE upH(j)
      adjH(j) == IF isHot THEN upH(j)  ELSE lowH(j)
      Qpot(j) == RSub(R(adjH(j)), asg)
      dtTar(j) == IF isHot THEN Tt - curT(j) ELSE curT(j) - Tt
      dtSup(j) == IF isHot THEN Ts - adjT(j) ELSE adjT(j) - Ts
      V == { j \in 1..m : adjH(j) # curH(j) /\ dtSup(j) >= 0 /\ RPos(Qpot(j)) }
  IN  IF V = {} THEN RZero
      ELSE IF Max({ dtTar(j) : j \in V }) < 0 THEN RZero
      ELSE
        LET Qts == RMaxSet({ Qpot(j) : j \in V })
            Qtt == IF PairSameRow
                   THEN \* corrected bound: every row strictly beyond the target level and within reach of the supply level
                        LET G == { r \in 1..Len(Tseg) :
                                     IF isHot THEN Tseg[r] > Tt /\ Ts >= Tseg[r] ELSE Tt > Tseg[r] /\ Tseg[r] >= Ts }
                        IN  IF G = {} THEN RInf
                            ELSE RMax(RZero, RMulI(RMinSet({ RDivI(RSub(R(Hseg[r]), asg), Abs(Tseg[r] - Tt)) : r \in G }), Abs(Tt - Ts)))
                   ELSE \* the code: Q_pot of the adjacent row over the temperature of the current row
                        LET Sl == { j \in V : -dtTar(j) > 0 }
                        IN  IF Sl = {} THEN RInf
                            ELSE RMinSet({ RMulI(RDivI(Qpot(j), -dtTar(j)), Abs(Tt - Ts)) : j \in Sl })
        IN  RMinI(Qts, Qtt)

(* _assign_utility: segments as sliced by the code *)
HotPinchRow  == IF HasPinch THEN RowOf(A_.hotPinch)  ELSE NR - 1     \* pinch_idx(H_net_actual)
ColdPinchRow == IF HasPinch THEN RowOf(A_.coldPinch) ELSE 0
HotSegT == SubSeq(Rows, 1, HotPinchRow + 1)
HotSegH == [j \in 1..Len(HotSegT) |-> HeatProf(HotSegT[j])]
ColdStart == IF ColdWraps /\ ColdPinchRow = 0 THEN NR ELSE Max({ColdPinchRow - 1, 0}) + 1    \* 1-based
ColdSegT == SubSeq(Rows, ColdStart, NR)
ColdSegH == [j \in 1..Len(ColdSegT) |-> CoolProf(ColdSegT[j])]

HotU  == HotOrder(HU_)
ColdU == ColdOrder(CU_)

---------------------------------------------------------------------------
(* the machine *)
Init ==
  /\ ForEachMultiset(MaxStreams, LAMBDA f : \E ho \in HotOpts : \E co \in ColdOpts :
        /\ (ho = 5 => \A j \in 1..Len(f) : USeq[f[j]].k = "H")      \* no cold stream: Qh = 0
        /\ (co = 5 => \A j \in 1..Len(f) : USeq[f[j]].k = "C")      \* no hot stream:  Qc = 0
        /\ inp = [S |-> [j \in 1..Len(f) |-> USeq[f[j]]], HU |-> HotLadder(ho), CU |-> ColdLadder(co), ho |-> ho, co |-> co,
               D |-> <<>>])
  /\ phase = "init" /\ k = 0 /\ assigned = RZero
  /\ hotQ = <<>> /\ coldQ = <<>>

(* cascade + pocket removal, taken from the definitional side (computed by the workers, not in Init) *)
Derive ==
  /\ phase = "init"
  /\ inp' = [inp EXCEPT !.D = Derived(inp.S, inp.HU, inp.CU)]
  /\ phase' = "start"
  /\ UNCHANGED <<k, assigned, hotQ, coldQ>>

(* _target_utility: hot utilities are targeted only if the heating profile is non-zero at the top *)
Begin ==
  /\ phase = "start"
  /\ hotQ' = [j \in 1..Len(HotU) |-> RZero]
  /\ coldQ' = [j \in 1..Len(ColdU) |-> RZero]
  /\ k' = 1 /\ assigned' = RZero
  /\ phase' = IF HeatProf(Rows[1]) > 0 THEN "hot" ELSE "hotDone"
  /\ UNCHANGED inp

AssignHot ==
  /\ phase = "hot"
  /\ LET u == HotU[k]
         q == MaxDuty(HotSegT, HotSegH, Sup(u), Tar(u), TRUE, assigned)
         a2 == IF RPos(q) THEN RAdd(assigned, q) ELSE assigned
     IN  /\ hotQ' = IF RPos(q) THEN [hotQ EXCEPT ![k] = q] ELSE hotQ
         /\ assigned' = a2
         /\ k' = k + 1
         /\ phase' = IF (~NoBreak /\ a2 = R(HotSegH[1])) \/ k = Len(HotU) THEN "hotDone" ELSE "hot"
  /\ UNCHANGED <<inp, coldQ>>

BeginCold ==
  /\ phase = "hotDone"
  /\ k' = 1 /\ assigned' = RZero
  /\ phase' = IF CoolProf(Rows[NR]) > 0 THEN "cold" ELSE "done"
  /\ UNCHANGED <<inp, hotQ, coldQ>>

AssignCold ==
  /\ phase = "cold"
  /\ LET u == ColdU[k]
         q == MaxDuty(ColdSegT, ColdSegH, Sup(u), Tar(u), FALSE, assigned)
         a2 == IF RPos(q) THEN RAdd(assigned, q) ELSE assigned
     IN  /\ coldQ' = IF RPos(q) THEN [coldQ EXCEPT ![k] = q] ELSE coldQ
         /\ assigned' = a2
         /\ k' = k + 1
         /\ phase' = IF (~NoBreak /\ Len(ColdSegH) > 0 /\ a2 = R(ColdSegH[Len(ColdSegH)])) \/ k = Len(ColdU) THEN "done" ELSE "cold"
  /\ UNCHANGED <<inp, hotQ>>

Next == Derive \/ Begin \/ AssignHot \/ BeginCold \/ AssignCold
Spec == Init /\ [][Next]_vars /\ WF_vars(Next)

---------------------------------------------------------------------------
(* DEFINITIONAL side *)
Done == phase = "done"

(* utility grand composite: heat released by hot utilities below T (above the pinch) resp. *)
(* absorbed by cold utilities above T (below the pinch)                                   *)
Frac(u, T) ==   \* fraction of hot utility u released at shifted temperatures <= T
  IF T >= u.hi THEN <<1, 1>> ELSE IF T <= u.lo THEN RZero ELSE Norm(T - u.lo, u.hi - u.lo)
FracC(u, T) ==  \* fraction of cold utility u absorbed at shifted temperatures >= T
  IF T <= u.lo THEN <<1, 1>> ELSE IF T >= u.hi THEN RZero ELSE Norm(u.hi - T, u.hi - u.lo)
UHot(T)  == RSumSeq([j \in 1..Len(HotU)  |-> RMul(hotQ[j],  Frac(HotU[j], T))])
UCold(T) == RSumSeq([j \in 1..Len(ColdU) |-> RMul(coldQ[j], FracC(ColdU[j], T))])

C03_Sums ==
  Done => /\ RSumSeq(hotQ)  = R(A_.Qh)
          /\ RSumSeq(coldQ) = R(A_.Qc)
          /\ \A j \in 1..Len(hotQ)  : RGe(hotQ[j], RZero)
          /\ \A j \in 1..Len(coldQ) : RGe(coldQ[j], RZero)

(* known finding KF-C04-glide: a utility whose glide strictly contains a stream breakpoint *)
KFGlide == \E u \in ToSet(HU_) \cup ToSet(CU_) : \E b \in inp.D.brk : u.lo < b /\ b < u.hi

Feasible ==
  \A T \in RowSet :
     /\ (HasPinch /\ T >= A_.hotPinch  => RLe(UHot(T),  R(NP(T))))
     /\ (HasPinch /\ T <= A_.coldPinch => RLe(UCold(T), R(NP(T))))
     /\ (HasPinch /\ T < A_.hotPinch  => RIsZero(UHot(T)))       \* no hot utility heat released below the hot pinch
     /\ (HasPinch /\ T > A_.coldPinch => RIsZero(UCold(T)))
     /\ (~HasPinch => RIsZero(UHot(T)) /\ RIsZero(UCold(T)))

C04_Feasible == Done => (Feasible \/ (KFGlide /\ ~PairSameRow))

(* lowest-grade-first closed form for isothermal ladders with distinct levels *)
Isothermal == \A u \in ToSet(HU_) \cup ToSet(CU_) : Glide(u) = 10
RECURSIVE Greedy(_, _, _, _)
Greedy(U, j, prior, isHot) ==
  IF j > Len(U) THEN <<>>
  ELSE LET u == U[j]
           can == IF isHot THEN HasPinch /\ Tar(u) >= A_.hotPinch ELSE HasPinch /\ Tar(u) <= A_.coldPinch
           q == IF can THEN Max({0, NP(Sup(u)) - prior}) ELSE 0
       IN  <<q>> \o Greedy(U, j + 1, prior + q, isHot)
(* known finding KF-C04-contribution-order: utilities with different contributions whose real and shifted supply orders *)
(* differ are served in the real order, so a lower-grade utility does not get the largest duty it could carry           *)
KFOrder == HotOrder(HU_) # HotGrade(HU_) \/ ColdOrder(CU_) # ColdGrade(CU_)
PosIn(U, u) == CHOOSE j \in 1..Len(U) : U[j] = u
OptimalStrict ==
  IF ~KFOrder
  THEN /\ hotQ  = [j \in 1..Len(HotU)  |-> R(Greedy(HotU, 1, 0, TRUE)[j])]
       /\ coldQ = [j \in 1..Len(ColdU) |-> R(Greedy(ColdU, 1, 0, FALSE)[j])]
  ELSE \* (only ladders of distinct utilities reach this branch) expected duty of each utility = its share in grade order
       /\ hotQ  = [j \in 1..Len(HotU)  |-> R(Greedy(HotGrade(HU_), 1, 0, TRUE)[PosIn(HotGrade(HU_), HotU[j])])]
       /\ coldQ = [j \in 1..Len(ColdU) |-> R(Greedy(ColdGrade(CU_), 1, 0, FALSE)[PosIn(ColdGrade(CU_), ColdU[j])])]
C04_Optimal == (Done /\ Isothermal) => (OptimalStrict \/ KFOrder)
C04_OptimalStrict == (Done /\ Isothermal) => OptimalStrict          \* thorough tier: must be VIOLATED (the carve-out is not empty)

(* brute force (tiny config): no integer duty larger than the closed form keeps the profile feasible *)
FeasibleWith(hq, cq) ==
  \A T \in RowSet :
     /\ (HasPinch /\ T >= A_.hotPinch  =>
           RLe(RSumSeq([j \in 1..Len(HotU) |-> RMul(R(hq[j]), Frac(HotU[j], T))]), R(NP(T))))
     /\ (HasPinch /\ T <= A_.coldPinch =>
           RLe(RSumSeq([j \in 1..Len(ColdU) |-> RMul(R(cq[j]), FracC(ColdU[j], T))]), R(NP(T))))
C04_BruteForce ==
  (BruteForce /\ Done /\ Isothermal /\ HasPinch) =>
     LET g == Greedy(HotU, 1, 0, TRUE)
     IN  \A j \in 1..Len(HotU) : \A extra \in 1..3 :
           \* raising the j-th (lower-grade first) duty while keeping earlier ones makes the profile infeasible
           ~FeasibleWith([i \in 1..Len(HotU) |-> IF i < j THEN g[i] ELSE IF i = j THEN g[j] + extra ELSE 0],
                         [i \in 1..Len(ColdU) |-> 0])
           \/ Tar(HotU[j]) < A_.hotPinch

---------------------------------------------------------------------------
CaseRec ==
  [ S |-> S_, HU |-> HotU, CU |-> ColdU, ho |-> inp.ho, co |-> inp.co,
    Qh |-> A_.Qh, Qc |-> A_.Qc, totHot |-> A_.totHot, totCold |-> A_.totCold,
    hasPinch |-> HasPinch, hotPinch |-> A_.hotPinch, coldPinch |-> A_.coldPinch,
    rows |-> Rows, np |-> [r \in 1..NR |-> NP(Rows[r])],
    kfGlide |-> KFGlide, kfOrder |-> KFOrder, isothermal |-> Isothermal,
    optQ |-> IF KFOrder
             THEN [hot  |-> [j \in 1..Len(HotU)  |-> Greedy(HotGrade(HU_), 1, 0, TRUE)[PosIn(HotGrade(HU_), HotU[j])]],
                   cold |-> [j \in 1..Len(ColdU) |-> Greedy(ColdGrade(CU_), 1, 0, FALSE)[PosIn(ColdGrade(CU_), ColdU[j])]]]
             ELSE [hot  |-> Greedy(HotU, 1, 0, TRUE), cold |-> Greedy(ColdU, 1, 0, FALSE)],
    hotQ |-> hotQ, coldQ |-> coldQ,
    feasible |-> Feasible ]
EmitCase == (DoEmit /\ Done) => PrintT(<<"CASE", ToJson(CaseRec)>>)
=============================================================================
