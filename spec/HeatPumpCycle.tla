--------------------------- MODULE HeatPumpCycle ---------------------------
(***************************************************************************)
(* SimpleHeatPumpCycle (OpenPinch/classes/simple_heat_pump.py), C18.       *)
(*                                                                         *)
(* Part 1 (model checked): the object as a request-order machine.  solve() *)
(* writes the mass flow on a per-kJ basis; building the condenser stream   *)
(* set re-writes it on the condenser profile's per-J basis; the evaporator *)
(* set multiplies a mass flow by per-J enthalpy differences.  Invariant:   *)
(* every emitted evaporator set carries Q_evap and every condenser set     *)
(* Q_cond, whatever was requested before.  EvapSharesMdot = TRUE is the    *)
(* behaviour before /repo commit "fix: evaporator stream set uses a mass   *)
(* flow on its own enthalpy basis".                                        *)
(*                                                                         *)
(* Part 2 (trace validation): solved cycles over the operating grid; TLC   *)
(* judges the first/second-law relations on the logged state points and    *)
(* the emitted stream sets for every request order, in fixed point.        *)
(***************************************************************************)
EXTENDS Integers, Sequences, FiniteSets, TLC, Json, IOUtils, SequencesExt

CONSTANTS HasTrace, MaxReq, EvapSharesMdot,
          SharedStates,     \* mutant: the state-point container is a constructor default evaluated once, so every cycle object
                            \* built with the default constructor writes into the same container (seeded change C18f)
          BackendCached     \* mutant: the property back end is rebuilt only when the refrigerant name differs from the one
                            \* recorded on the object -- and the name is recorded before the comparison (seeded change C18b)

Fluids == {"f1", "f2"}
VARIABLES solved, basis, hist, obs, l,
          pts,              \* whose solve() last wrote the state-point container this object reads: "none", "self", "other"
          fluid,            \* refrigerant named in the last solve() (what the object reports)
          backend           \* refrigerant whose property back end (state object, critical constants) is loaded
vars == <<solved, basis, hist, obs, l, fluid, backend, pts>>

Trace == IF HasTrace THEN JsonDeserialize(IOEnv.TRACE_FILE) ELSE <<>>

(* ---- Part 1 ---- *)
DInit == /\ solved = FALSE /\ basis = "none" /\ hist = <<>> /\ obs = [evap |-> "none", cond |-> "none"] /\ l = 1
         /\ fluid = "none" /\ backend = "none" /\ pts = "none"
(* solve(refrigerant = f): _validate_solve_inputs loads the back end for f on EVERY call, then the name is recorded;   *)
(* the same object may be solved again for another refrigerant or operating point                                     *)
Solve(f) ==
         /\ ~HasTrace /\ Len(hist) < MaxReq
         /\ solved' = TRUE /\ basis' = "perkJ"            \* _get_metrics: m_dot = Q_cond / q_cond, q_cond in kJ/kg
         /\ fluid' = f
         /\ backend' = IF BackendCached /\ backend # "none" THEN backend ELSE f
         /\ hist' = Append(hist, "solve:" \o f) /\ obs' = [evap |-> "none", cond |-> "none"] /\ UNCHANGED l
         /\ pts' = "self"
(* ANOTHER cycle object, alive at the same time, is solved (a cascade holds several): it owns its container *)
SolveOther ==
         /\ ~HasTrace /\ Len(hist) < MaxReq
         /\ pts' = IF SharedStates /\ pts # "none" THEN "other" ELSE pts
         /\ hist' = Append(hist, "other") /\ UNCHANGED <<solved, basis, obs, l, fluid, backend>>
Build(c, e) ==
  /\ ~HasTrace /\ solved /\ Len(hist) < MaxReq
  /\ LET b1 == IF c THEN "perJ" ELSE basis                 \* condenser branch re-bases the shared mass flow first
     IN  /\ basis' = b1
         /\ obs' = [cond |-> IF c THEN "Qcond" ELSE "none",
                    evap |-> IF ~e THEN "none"
                             ELSE IF EvapSharesMdot THEN (IF b1 = "perJ" THEN "Qevap" ELSE "1000xQevap")
                             ELSE "Qevap"]
  /\ hist' = Append(hist, IF c /\ e THEN "both" ELSE IF c THEN "cond" ELSE "evap")
  /\ UNCHANGED <<solved, l, fluid, backend, pts>>
C18_OwnStatePoints == solved => pts = "self"                 \* an object reports the state points of its own last solve
C18_BackendIsRequested == solved => backend = fluid          \* state points are those of the refrigerant asked for
C18_OrderIndependent == obs.evap \in {"none", "Qevap"} /\ obs.cond \in {"none", "Qcond"}

(* ---- Part 2 ---- *)
(* event: id, Qc, Qe, W (x 1e4 of Q_cond units), COPh, COPr (x 1e4), h/s/p at states 0..3 (J/kg, mJ/kg/K, Pa / 10), psatE, psatC,   *)
(*        sets: sequence of [order, hot: duties x1e4, cold: duties x1e4, hotT: supply/target pairs x100, coldT: ...]                 *)
Abs(x) == IF x < 0 THEN -x ELSE x
Near(a, b, t) == Abs(a - b) <= t
SumS(s) == FoldSeq(LAMBDA x, acc : acc + x, 0, s)
EvFails(e) ==
  (IF Near(e.Qc, e.Qe + e.W, 3) /\ e.W > 0 THEN {} ELSE {"C18.first_law_Qc_is_Qe_plus_W"})
  \cup (IF Near(e.COPh, e.COPr + 10000, 3) THEN {} ELSE {"C18.COPh_is_COPr_plus_one"})
  \cup (IF e.s[2] >= e.s[1] - 1 THEN {} ELSE {"C18.compression_entropy"})                   \* state 0 -> 1
  \cup (IF e.s[4] >= e.s[3] - 1 THEN {} ELSE {"C18.throttling_entropy"})                    \* state 2 -> 3
  \cup (IF Near(e.h[4], e.h[3], 2) THEN {} ELSE {"C18.throttling_isenthalpic"})
  (* pressures arrive in units of 10 Pa, rounded: equal quantities may differ by one unit, and by 1e-5 relative at high pressure *)
  \cup (IF /\ Near(e.p[1], e.psatE, 2 + e.psatE \div 100000) /\ Near(e.p[2], e.psatC, 2 + e.psatC \div 100000)
           /\ Near(e.p[4], e.p[1], 1 + e.p[1] \div 100000) /\ Near(e.p[3], e.p[2], 1 + e.p[2] \div 100000)
        THEN {} ELSE {"C18.saturation_pressures"})
  \cup (IF \A k \in 1..Len(e.sets) :
             LET q == e.sets[k] IN
             /\ (q.hot # <<>> => Near(SumS(q.hot), e.Qc, 5))
             /\ (q.cold # <<>> => Near(SumS(q.cold), e.Qe, 5))
        THEN {} ELSE {"C18.stream_sets_carry_duties"})
  \cup (IF \A k \in 1..Len(e.sets) :
             LET q == e.sets[k] IN
             /\ \A j \in 1..Len(q.hotT) : q.hotT[j][1] >= q.hotT[j][2]                       \* each hot stream cools
             /\ \A j \in 1..(Len(q.hotT) - 1) : q.hotT[j][2] >= q.hotT[j + 1][1] - 2         \* and the set cools monotonically
             /\ \A j \in 1..Len(q.coldT) : q.coldT[j][1] <= q.coldT[j][2]
             /\ \A j \in 1..(Len(q.coldT) - 1) : q.coldT[j][2] <= q.coldT[j + 1][1] + 2
        THEN {} ELSE {"C18.stream_sets_monotone"})
  \cup (IF \A k \in 1..Len(e.sets) : \A m \in 1..Len(e.sets) :
             /\ (e.sets[k].hot # <<>> /\ e.sets[m].hot # <<>> => e.sets[k].hot = e.sets[m].hot /\ e.sets[k].hotT = e.sets[m].hotT)
             /\ (e.sets[k].cold # <<>> /\ e.sets[m].cold # <<>> => e.sets[k].cold = e.sets[m].cold /\ e.sets[k].coldT = e.sets[m].coldT)
        THEN {} ELSE {"C18.order_independent"})
  (* the same point solved on an object that was solved before for another refrigerant and operating point *)
  \cup (IF e.reuse.h = e.h /\ e.reuse.s = e.s /\ e.reuse.p = e.p /\ e.reuse.Qc = e.Qc /\ e.reuse.Qe = e.Qe /\ e.reuse.W = e.W
        THEN {} ELSE {"C18.independent_of_earlier_solves"})
  (* the object re-read after OTHER cycle objects were created and solved at other operating points *)
  \cup (IF e.alive.h = e.h /\ e.alive.s = e.s /\ e.alive.p = e.p /\ e.alive.Qc = e.Qc /\ e.alive.Qe = e.Qe /\ e.alive.W = e.W
        THEN {} ELSE {"C18.independent_of_other_cycle_objects"})

TInit == /\ solved = TRUE /\ basis = "trace" /\ hist = <<>> /\ obs = [evap |-> "none", cond |-> "none"] /\ l = 1
         /\ fluid = "trace" /\ backend = "trace" /\ pts = "self"
TStep == /\ HasTrace /\ l <= Len(Trace)
         /\ LET f == EvFails(Trace[l]) IN f = {} \/ PrintT(<<"VERDICT", ToJson([id |-> Trace[l].id, fails |-> SetToSeq(f)])>>)
         /\ l' = l + 1 /\ UNCHANGED <<solved, basis, hist, obs, fluid, backend, pts>>

Init == IF HasTrace THEN TInit ELSE DInit
Next == (\E f \in Fluids : Solve(f)) \/ SolveOther \/ (\E c, e \in BOOLEAN : (c \/ e) /\ Build(c, e)) \/ TStep
Spec == Init /\ [][Next]_vars
TraceAccepted == ~HasTrace \/ TLCGet("stats").diameter - 1 = Len(Trace)
=============================================================================
