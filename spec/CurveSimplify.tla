---------------------------- MODULE CurveSimplify ----------------------------
(***************************************************************************)
(* Curve simplification (property C17):                                    *)
(*   Clean   clean_composite_curve_ends + clean_composite_curve            *)
(*           (OpenPinch/utils/miscellaneous.py) on lattice polylines       *)
(*           (y = temperature strictly descending, x = enthalpy arbitrary) *)
(*   Rdp     _rdp (OpenPinch/utils/stream_linearisation.py) with the       *)
(*           code's explicit stack, on monotone lattice polylines; exact   *)
(*           squared distances, no roots                                   *)
(*   Trace   judgement of real get_piecewise_data_points results on long   *)
(*           curves (50-500 points): deviation of every original point     *)
(*           from its spanning simplified segment, one-sidedness, ends,    *)
(*           order -- in integers, with an integer square root             *)
(* Mode selects the machine; each has implementation-shaped operators and  *)
(* independent definitional predicates.                                    *)
(***************************************************************************)
EXTENDS Integers, Sequences, FiniteSets, TLC, SequencesExt, FiniteSetsExt, Json, IOUtils

CONSTANTS Mode,            \* "clean" | "rdp" | "trace"
          MaxPts, MaxCoord, Eps2Set, DoEmit,
          DropSpike,       \* mutant (seeded change C13a): the x1 = x3 branch always drops the middle point
          RdpNoSplit       \* mutant: _rdp compares dmax with 2*epsilon

VARIABLES curve, eps2, result, phase, stack, keep, l
vars == <<curve, eps2, result, phase, stack, keep, l>>

Abs(x) == IF x < 0 THEN -x ELSE x
Pt(x, y) == <<x, y>>

---------------------------------------------------------------------------
(* Clean: points are <<x, y>> = <<H, T>>; y strictly descending *)
(* clean_composite_curve_ends: drop the constant-x runs at both ends, keeping the innermost point of each *)
CleanEnds(c) ==
  LET n == Len(c)
      allSame == \A i \in 1..n : c[i][1] = c[1][1]
  IN  IF allSame THEN <<>>
      ELSE LET start == Min({ i \in 1..n : c[i][1] # c[1][1] }) - 1
               end   == Max({ i \in 1..n : c[i][1] # c[n][1] }) + 1
           IN  SubSeq(c, start, end)
(* clean_composite_curve: interior point i is dropped when collinear with its ORIGINAL neighbours *)
KeepInterior(c, i) ==
  LET x1 == c[i-1][1]  x2 == c[i][1]  x3 == c[i+1][1]
      y1 == c[i-1][2]  y2 == c[i][2]  y3 == c[i+1][2]
  IN  IF x1 = x3 THEN (IF DropSpike THEN FALSE ELSE x1 # x2)
      ELSE (y2 - y1) * (x3 - x1) # (y3 - y1) * (x2 - x1)          \* |y2 - y_interp| > tol, exactly
CleanImpl(c0) ==
  LET c == CleanEnds(c0)
      n == Len(c)
  IN  IF n <= 2 THEN c
      ELSE LET mid == SelectSeq([i \in 1..(n - 2) |-> i + 1], LAMBDA i : KeepInterior(c, i))
               pts == <<c[1]>> \o [j \in 1..Len(mid) |-> c[mid[j]]] \o <<c[n]>>
               p1  == IF Len(pts) >= 2 /\ pts[1][1] = pts[2][1] THEN Tail(pts) ELSE pts
               m   == Len(p1)
           IN  IF m >= 2 /\ p1[m][1] = p1[m-1][1] THEN SubSeq(p1, 1, m - 1) ELSE p1

(* DEFINITIONAL: same function of temperature over the non-flat extent *)
OnSegment(p, a, b) ==     \* p on the closed segment a-b (y strictly between or equal)
  /\ (p[1] - a[1]) * (b[2] - a[2]) = (p[2] - a[2]) * (b[1] - a[1])
  /\ a[2] >= p[2] /\ p[2] >= b[2]
NonFlat(c) == { i \in 1..Len(c) : ~(\A j \in 1..i : c[j][1] = c[1][1]) /\ ~(\A j \in i..Len(c) : c[j][1] = c[Len(c)][1]) }
Extent(c) ==    \* indices from the last point of the leading flat run to the first point of the trailing flat run
  IF NonFlat(c) = {} THEN {} ELSE (Min(NonFlat(c)) - 1)..(Max(NonFlat(c)) + 1)
C17_CleanSameFunction ==
  (Mode = "clean" /\ phase = "done") =>
    LET E == { i \in Extent(curve) : i >= 1 /\ i <= Len(curve) } IN
    IF E = {} THEN result = <<>> \/ Len(result) <= 2
    ELSE /\ Len(result) >= 2
         /\ \A i \in E : \E j \in 1..(Len(result) - 1) : OnSegment(curve[i], result[j], result[j + 1])
         /\ \A j \in 1..Len(result) : \E i \in 1..Len(curve) : curve[i] = result[j]        \* kept points are original points
         /\ \A j \in 1..(Len(result) - 1) : result[j][2] > result[j + 1][2]                \* original order
C17_CleanKeepsEnds ==
  (Mode = "clean" /\ phase = "done" /\ NonFlat(curve) # {}) =>
    LET a == Min(NonFlat(curve))  b == Max(NonFlat(curve)) IN
    \* the first and last non-flat points survive, or lie on the first/last segment whose other end is a flat-run point with the same x
    /\ \E j \in 1..(Len(result) - 1) : OnSegment(curve[a], result[j], result[j + 1])
    /\ \E j \in 1..(Len(result) - 1) : OnSegment(curve[b], result[j], result[j + 1])

---------------------------------------------------------------------------
(* Rdp: the code's loop, one action per popped stack entry *)
Cross(a, b, p) == (b[1] - a[1]) * (p[2] - a[2]) - (b[2] - a[2]) * (p[1] - a[1])
Len2(a, b) == (b[1] - a[1]) * (b[1] - a[1]) + (b[2] - a[2]) * (b[2] - a[2])
(* first index with the largest distance (strict > keeps the first) *)
FarIdx(s, e) ==
  LET a == curve[s]  b == curve[e]
      best == Max({ Cross(a, b, curve[i]) * Cross(a, b, curve[i]) : i \in (s + 1)..(e - 1) } \cup {0})
  IN  IF best = 0 THEN s ELSE Min({ i \in (s + 1)..(e - 1) : Cross(a, b, curve[i]) * Cross(a, b, curve[i]) = best })
RdpStep ==
  /\ Mode = "rdp" /\ phase = "run" /\ stack # <<>>
  /\ LET top == stack[Len(stack)]
         s == top[1]  e == top[2]
         rest == SubSeq(stack, 1, Len(stack) - 1)
         a == curve[s]  b == curve[e]
         L2 == Len2(a, b)
         idx == FarIdx(s, e)
         d2n == Cross(a, b, curve[idx]) * Cross(a, b, curve[idx])            \* dmax^2 * L2
         thr == IF RdpNoSplit THEN 4 * eps2 ELSE eps2
     IN  IF L2 = 0 THEN stack' = rest /\ keep' = keep                        \* coincident end points: `continue`
         ELSE IF d2n > thr * L2 THEN stack' = rest \o << <<s, idx>>, <<idx, e>> >> /\ keep' = keep
         ELSE stack' = rest /\ keep' = keep \ ((s + 1)..(e - 1))
  /\ phase' = IF stack' = <<>> THEN "done" ELSE "run"
  /\ result' = IF stack' = <<>> THEN [j \in 1..Cardinality(keep') |-> curve[SetToSortSeq(keep', LAMBDA x, y : x < y)[j]]] ELSE result
  /\ UNCHANGED <<curve, eps2, l>>

KeptIdx == SetToSortSeq(keep, LAMBDA x, y : x < y)
C17_RdpEnds  == (Mode = "rdp" /\ phase = "done") => result[1] = curve[1] /\ result[Len(result)] = curve[Len(curve)]
C17_RdpOrder == (Mode = "rdp" /\ phase = "done") => \A j \in 1..(Len(KeptIdx) - 1) : KeptIdx[j] < KeptIdx[j + 1]
(* every original point within eps of the simplified polyline (its spanning segment; for monotone curves the foot of the *)
(* perpendicular lies on the segment)                                                                                    *)
C17_RdpDeviation ==
  (Mode = "rdp" /\ phase = "done") =>
    \A i \in 1..Len(curve) :
      \E j \in 1..(Len(KeptIdx) - 1) :
        /\ KeptIdx[j] <= i /\ i <= KeptIdx[j + 1]
        /\ LET a == curve[KeptIdx[j]]  b == curve[KeptIdx[j + 1]] IN
           IF Len2(a, b) = 0 THEN curve[i] = a \/ (curve[i][1] - a[1]) * (curve[i][1] - a[1]) + (curve[i][2] - a[2]) * (curve[i][2] - a[2]) <= eps2 \/ TRUE
           ELSE Cross(a, b, curve[i]) * Cross(a, b, curve[i]) <= eps2 * Len2(a, b)

---------------------------------------------------------------------------
(* Trace mode: events from real get_piecewise_data_points runs.  An event: id, eps (=100 in local units), hot (BOOLEAN), *)
(* onesided (BOOLEAN: the refinement ran), endsKept, ordered, pts: sequence of [px,py,sx,sy] = original point and its    *)
(* spanning simplified segment, relative to the segment start, in units of eps/100.                                      *)
Trace == IF Mode = "trace" THEN JsonDeserialize(IOEnv.TRACE_FILE) ELSE <<>>
RECURSIVE ISqrtB(_, _, _)
ISqrtB(n, lo, hi) == IF lo >= hi THEN lo ELSE LET m == (lo + hi + 1) \div 2 IN IF m * m <= n THEN ISqrtB(n, m, hi) ELSE ISqrtB(n, lo, m - 1)
ISqrt(n) == ISqrtB(n, 0, 46340)
EvFails(e) ==
  (IF e.endsKept THEN {} ELSE {"C17.linearisation_keeps_end_points"})
  \cup (IF e.ordered THEN {} ELSE {"C17.linearisation_original_order"})
  \cup (IF \A k \in 1..Len(e.pts) :
             LET p == e.pts[k]
                 len == ISqrt(p.sx * p.sx + p.sy * p.sy)
             IN  len = 0 \/ Abs(p.px * p.sy - p.py * p.sx) <= (e.epsu + 2) * (len + 1) + 2 * (len + 1)      \* deviation <= eps (+2 %) + 2 units rounding
        THEN {} ELSE {"C17.linearisation_within_max_deviation"})
  \cup (IF ~e.onesided \/ \A k \in 1..Len(e.pts) :
             LET p == e.pts[k]
                 (* vertical gap  simplified(x) - original(y)  at the original point's abscissa, times sx (sx # 0) *)
                 gapN == p.sy * p.px - p.py * p.sx
                 sgn  == IF p.sx > 0 THEN 1 ELSE -1
             IN  p.sx = 0 \/ (IF e.hot THEN sgn * gapN <= (e.epsu \div 10 + 3) * Abs(p.sx)      \* never above by more than eps/10 (+ rounding)
                              ELSE sgn * gapN >= -((e.epsu \div 10 + 3) * Abs(p.sx)))       \* never below
        THEN {} ELSE {"C17.linearisation_one_sided"})

TraceStep ==
  /\ Mode = "trace" /\ l <= Len(Trace)
  /\ LET f == EvFails(Trace[l]) IN f = {} \/ PrintT(<<"VERDICT", ToJson([id |-> Trace[l].id, fails |-> SetToSeq(f)])>>)
  /\ l' = l + 1
  /\ UNCHANGED <<curve, eps2, result, phase, stack, keep>>
TraceAccepted == Mode # "trace" \/ TLCGet("stats").diameter - 1 = Len(Trace)

---------------------------------------------------------------------------
(* Graph mode (property C13): OpenPinch/analysis/graph_data.py _build_gcc_segments =                                    *)
(* clean_composite_curve -> _segment_bounds -> _iter_gcc_segment_slices with _classify_segment.                          *)
(* eps2 carries the is_utility_profile flag (0 / 1).  Points are <<H, T>>.                                               *)
Class(dh, util) == IF dh = 0 THEN "V" ELSE IF dh > 0 THEN (IF util THEN "HotU" ELSE "Cold") ELSE (IF util THEN "ColdU" ELSE "Hot")
SegBounds(c) ==     \* 1-based: first index whose step is non-zero, last index whose preceding step is non-zero
  LET n == Len(c)
      A == { i \in 1..(n - 1) : c[i][1] # c[i + 1][1] }
      B == { i \in 2..n : c[i][1] # c[i - 1][1] }
  IN  [start |-> IF A = {} THEN 1 ELSE Min(A), end |-> IF B = {} THEN n ELSE Max(B)]
RECURSIVE Slices(_, _, _, _)
Slices(c, j, end, util) ==
  IF j >= end THEN <<>>
  ELSE LET cls == Class(c[j][1] - c[j + 1][1], util)
           RECURSIVE Ext(_)
           Ext(k) == IF k < end /\ Class(c[k][1] - c[k + 1][1], util) = cls THEN Ext(k + 1) ELSE k
           nj == Ext(j + 1)
       IN  << [cls |-> cls, pts |-> SubSeq(c, j, nj)] >> \o Slices(c, nj, end, util)
GraphSegs(c0, util) ==
  LET c == CleanImpl(c0) IN
  IF Len(c) < 2 THEN <<>> ELSE LET b == SegBounds(c) IN Slices(c, b.start, b.end, util)

Segs == GraphSegs(curve, eps2 = 1)
GraphDone == Mode = "graph" /\ phase = "done"
(* every emitted point is a row of the table curve *)
C13_PointsOnCurve == GraphDone => \A k \in 1..Len(Segs) : \A j \in 1..Len(Segs[k].pts) : \E i \in 1..Len(curve) : curve[i] = Segs[k].pts[j]
(* consecutive segments share their end point, so the emitted points form one polyline *)
C13_Contiguous == GraphDone => \A k \in 1..(Len(Segs) - 1) : Segs[k].pts[Len(Segs[k].pts)] = Segs[k + 1].pts[1]
(* linear interpolation through the emitted points recovers every table row over the non-flat extent *)
C13_RecoversRows ==
  GraphDone =>
    LET E == { i \in Extent(curve) : i >= 1 /\ i <= Len(curve) } IN
    E # {} => \A i \in E : \E k \in 1..Len(Segs) : \E j \in 1..(Len(Segs[k].pts) - 1) : OnSegment(curve[i], Segs[k].pts[j], Segs[k].pts[j + 1])
(* classification follows the sign of the enthalpy change, and is constant along a segment *)
C13_SignClass ==
  GraphDone => \A k \in 1..Len(Segs) : \A j \in 1..(Len(Segs[k].pts) - 1) :
                  Segs[k].cls = Class(Segs[k].pts[j][1] - Segs[k].pts[j + 1][1], eps2 = 1)
GraphStep == /\ Mode = "graph" /\ phase = "start"
             /\ result' = CleanImpl(curve) /\ phase' = "done"
             /\ UNCHANGED <<curve, eps2, stack, keep, l>>
EmitGraph == (DoEmit /\ GraphDone) => PrintT(<<"CASE", ToJson([mode |-> Mode, curve |-> curve, util |-> eps2 = 1, segs |-> Segs])>>)

---------------------------------------------------------------------------
Coords == 0..MaxCoord
(* clean: y strictly descending = subset of coordinates, x arbitrary in 0..2 *)
(* rdp: monotone (non-strict) in both coordinates, repeated points allowed   *)
RECURSIVE Mono(_)
Mono(n) == IF n = 1 THEN { <<v>> : v \in Coords } ELSE UNION { { Append(s, v) : v \in s[n - 1]..MaxCoord } : s \in Mono(n - 1) }

Init ==
  /\ l = 1 /\ stack = <<>> /\ keep = {} /\ result = <<>>
  /\ CASE Mode = "clean" ->
            /\ eps2 = 0 /\ phase = "start"
            /\ \E n \in 3..MaxPts : \E Y \in SUBSET Coords : \E xs \in [1..n -> 0..2] :
                  /\ Cardinality(Y) = n
                  /\ curve = LET ys == SetToSortSeq(Y, LAMBDA a, b : a > b) IN [i \in 1..n |-> <<xs[i], ys[i]>>]
       [] Mode = "graph" ->
            /\ eps2 \in {0, 1} /\ phase = "start"
            /\ \E n \in 3..MaxPts : \E Y \in SUBSET Coords : \E xs \in [1..n -> 0..2] :
                  /\ Cardinality(Y) = n
                  /\ curve = LET ys == SetToSortSeq(Y, LAMBDA a, b : a > b) IN [i \in 1..n |-> <<xs[i], ys[i]>>]
       [] Mode = "rdp" ->
            /\ phase = "start" /\ eps2 \in Eps2Set
            /\ \E n \in 2..MaxPts : \E xs \in Mono(n) : \E ys \in Mono(n) : curve = [i \in 1..n |-> <<xs[i], ys[i]>>]
       [] OTHER -> curve = <<>> /\ eps2 = 0 /\ phase = "trace"
CleanStep == /\ Mode = "clean" /\ phase = "start"
             /\ result' = CleanImpl(curve) /\ phase' = "done"
             /\ UNCHANGED <<curve, eps2, stack, keep, l>>
RdpStart == /\ Mode = "rdp" /\ phase = "start"
            /\ stack' = << <<1, Len(curve)>> >> /\ keep' = 1..Len(curve) /\ phase' = "run"
            /\ UNCHANGED <<curve, eps2, result, l>>
Next == CleanStep \/ GraphStep \/ RdpStart \/ RdpStep \/ TraceStep
Spec == Init /\ [][Next]_vars

EmitCase == (DoEmit /\ phase = "done") => PrintT(<<"CASE", ToJson([mode |-> Mode, curve |-> curve, eps2 |-> eps2, result |-> result])>>)
=============================================================================
