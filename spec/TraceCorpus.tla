----------------------------- MODULE TraceCorpus -----------------------------
(***************************************************************************)
(* Trace validation of the shipped example problems (39 literature cases   *)
(* with arbitrary float data, up to dozens of streams, nested zones, many  *)
(* utility levels and pockets).  There is no lattice here, so only the     *)
(* relational clauses are judged, in fixed point: an event is one problem; *)
(* every zone carries its streams' duties (kind, q) and every record its   *)
(* Qh/Qc/Qr and utility duties, all as integers in units of                *)
(* total duty / 1e7 ("1e-6 of the total duty" = 10 units).                 *)
(*   C02  Qh - Qc = cold duty - hot duty of the zone, Qr = hot duty - Qc,  *)
(*        non-negative, hot minus cold utility duties = Qh - Qc            *)
(*   C03  utility duties sum to the targets on direct-integration records  *)
(*   C09  total-process = sum of the direct children, DI <= TS <= sum,     *)
(*        recovery identity                                                *)
(***************************************************************************)
EXTENDS Integers, Sequences, FiniteSets, TLC, Json, IOUtils, SequencesExt, FiniteSetsExt

VARIABLE l
Trace == JsonDeserialize(IOEnv.TRACE_FILE)
Near(a, b, t) == a - b <= t /\ b - a <= t
SumQ(F(_), s) == FoldSeq(LAMBDA x, acc : acc + F(x), 0, s)
SumU(us) == SumQ(LAMBDA u : u.q, us)
DutyOf(us, nm) == SumQ(LAMBDA u : IF u.name = nm THEN u.q ELSE 0, us)
Names(us) == { us[i].name : i \in 1..Len(us) }
Tol == 30

(* event: zones: seq of [name, hot (sum q), cold (sum q), streams: seq of [k, q], children: seq of zone indices, site: BOOLEAN]   *)
(*        recs: seq of [zone (index), kind, Qh, Qc, Qr, hu, cu]                                                                   *)
EvFails(e) ==
  LET zones == e.zones
      R(z, kind) == SelectSeq(e.recs, LAMBDA r : r.zone = z /\ r.kind = kind)
      hotOf(z)  == SumQ(LAMBDA s : IF s.k = "H" THEN s.q ELSE 0, zones[z].streams)
      coldOf(z) == SumQ(LAMBDA s : IF s.k = "C" THEN s.q ELSE 0, zones[z].streams)
      t(z) == Tol + 3 * Len(zones[z].streams)
      balance(r, z) == /\ Near(r.Qh - r.Qc, coldOf(z) - hotOf(z), t(z))
                       /\ Near(r.Qr, hotOf(z) - r.Qc, t(z))
                       /\ r.Qh >= -Tol /\ r.Qc >= -Tol /\ r.Qr >= -Tol
                       /\ Near(SumU(r.hu) - SumU(r.cu), r.Qh - r.Qc, t(z))
  IN
  UNION { IF \A i \in 1..Len(e.recs) : e.recs[i].zone = z => balance(e.recs[i], z) THEN {} ELSE {"C02.balance"} : z \in 1..Len(zones) }
  \cup UNION { IF \A i \in 1..Len(e.recs) : (e.recs[i].zone = z /\ e.recs[i].kind = "DI") =>
                     /\ Near(SumU(e.recs[i].hu), e.recs[i].Qh, Tol) /\ Near(SumU(e.recs[i].cu), e.recs[i].Qc, Tol)
                     /\ \A j \in 1..Len(e.recs[i].hu) : e.recs[i].hu[j].q >= -Tol
                     /\ \A j \in 1..Len(e.recs[i].cu) : e.recs[i].cu[j].q >= -Tol
               THEN {} ELSE {"C03.sums"} : z \in 1..Len(zones) }
  \cup UNION { IF ~zones[z].site \/ Len(R(z, "TZ")) # 1 \/ Len(R(z, "TS")) # 1 \/ Len(R(z, "DI")) # 1
                  \/ \E c \in ToSet(zones[z].children) : Len(R(c, "DI")) # 1
               THEN {}
               ELSE LET tz == R(z, "TZ")[1]  ts == R(z, "TS")[1]  di == R(z, "DI")[1]
                        ch == zones[z].children
                        sQh == SumQ(LAMBDA c : R(c, "DI")[1].Qh, ch)
                        sQc == SumQ(LAMBDA c : R(c, "DI")[1].Qc, ch)
                        sQr == SumQ(LAMBDA c : R(c, "DI")[1].Qr, ch)
                        tt == Tol * (Len(ch) + 1)
                    IN  (IF /\ Near(tz.Qh, sQh, tt) /\ Near(tz.Qc, sQc, tt) /\ Near(tz.Qr, sQr, tt)
                            /\ \A nm \in Names(tz.hu) : Near(DutyOf(tz.hu, nm), SumQ(LAMBDA c : DutyOf(R(c, "DI")[1].hu, nm), ch), tt)
                            /\ \A nm \in Names(tz.cu) : Near(DutyOf(tz.cu, nm), SumQ(LAMBDA c : DutyOf(R(c, "DI")[1].cu, nm), ch), tt)
                         THEN {} ELSE {"C09.total_process_is_sum_of_zones"})
                        \cup (IF /\ di.Qh <= ts.Qh + tt /\ ts.Qh <= tz.Qh + tt /\ di.Qc <= ts.Qc + tt /\ ts.Qc <= tz.Qc + tt
                              THEN {} ELSE {"C09.bracket"})
                        \cup (IF Near(ts.Qr, sQr + (tz.Qh - ts.Qh), tt) THEN {} ELSE {"C09.recovery_identity"})
             : z \in 1..Len(zones) }

Init == l = 1
Next == /\ l <= Len(Trace)
        /\ LET f == EvFails(Trace[l]) IN f = {} \/ PrintT(<<"VERDICT", ToJson([id |-> Trace[l].id, fails |-> SetToSeq(f)])>>)
        /\ l' = l + 1
Spec == Init /\ [][Next]_l
TraceAccepted == TLCGet("stats").diameter - 1 = Len(Trace)
=============================================================================
