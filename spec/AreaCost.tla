------------------------------ MODULE AreaCost ------------------------------
(***************************************************************************)
(* Area and capital-cost targets (property C15).                           *)
(*                                                                         *)
(* Part 1 (model checked, then replayed): the cost laws in exact rational  *)
(* arithmetic -- capital cost N(a + b(A/N)^c) for c = 1 exactly and for    *)
(* c = 1/2 through its square, the capital-recovery factor                 *)
(* i(1+i)^n / ((1+i)^n - 1) and the identity that its discounted annuities *)
(* sum to one, monotonicity in the area.  TLC enumerates a parameter grid  *)
(* and exports the exact values; the harness evaluates the real functions. *)
(*                                                                         *)
(* Part 2 (trace validation): for problems run with area targeting the     *)
(* harness rebuilds the balanced composite curves from the streams and the *)
(* assigned utility duties and decomposes them into enthalpy intervals     *)
(* independently of the code; TLC judges, per event: equal spans, interval *)
(* duties summing to the span, each log-mean difference inside the         *)
(* root-free Carlson/Polya bracket of its end differences (so the harness' *)
(* logarithm is not trusted), the area identity sum Q_i R_i / L_i against  *)
(* the reported 'Area target', positivity, and the cost law on the         *)
(* reported capital cost for c = 1.                                        *)
(***************************************************************************)
EXTENDS Integers, Sequences, FiniteSets, TLC, Json, IOUtils, SequencesExt, FiniteSetsExt, Rational

CONSTANTS HasTrace, Areas, Units, FixedCosts, VarCosts, RateNum, RateDen, Years, DoEmit

VARIABLES par, phase, l
vars == <<par, phase, l>>
Trace == IF HasTrace THEN JsonDeserialize(IOEnv.TRACE_FILE) ELSE <<>>

RECURSIVE RPow(_, _)
RPow(q, n) == IF n = 0 THEN <<1, 1>> ELSE RMul(q, RPow(q, n - 1))
Crf(i, n) == RDiv(RMul(i, RPow(RAdd(<<1, 1>>, i), n)), RSub(RPow(RAdd(<<1, 1>>, i), n), <<1, 1>>))
RECURSIVE Annuity(_, _)
Annuity(i, n) == IF n = 0 THEN RZero ELSE RAdd(Annuity(i, n - 1), RDiv(<<1, 1>>, RPow(RAdd(<<1, 1>>, i), n)))
CostLinear(A, N, a, b) == RAdd(RMulI(R(a), N), RMulI(R(b), A))           \* c = 1:  N a + N b (A/N) = N a + b A

Init == /\ l = 1
        /\ IF HasTrace THEN par = <<>> /\ phase = "trace"
           ELSE /\ phase = "new"
                /\ \E A \in Areas, N \in Units, a \in FixedCosts, b \in VarCosts, m \in RateNum, k \in RateDen, n \in Years :
                      /\ Norm(m, k)[1] + Norm(m, k)[2] <= 13        \* keeps (1 + i)^4 inside TLC's 32-bit integers
                      /\ par = [A |-> A, N |-> N, a |-> a, b |-> b, i |-> Norm(m, k), n |-> n]     \* any positive rate, also above 100 % per year
Eval == /\ phase = "new" /\ phase' = "done" /\ UNCHANGED <<par, l>>

C15_AnnuitiesSumToOne == phase = "done" => RMul(Crf(par.i, par.n), Annuity(par.i, par.n)) = <<1, 1>>
C15_FactorDecreasesWithLife == (phase = "done" /\ par.n + 1 \in Years) => RLt(Crf(par.i, par.n + 1), Crf(par.i, par.n))       \* a longer life never costs more per year
C15_CostIncreasesWithArea ==
  phase = "done" => \A A2 \in Areas : A2 > par.A => RLt(CostLinear(par.A, par.N, par.a, par.b), CostLinear(A2, par.N, par.a, par.b)) \/ par.b = 0
EmitCase == (DoEmit /\ phase = "done") =>
  PrintT(<<"CASE", ToJson([A |-> par.A, N |-> par.N, a |-> par.a, b |-> par.b, i |-> par.i, n |-> par.n,
                           cost1 |-> CostLinear(par.A, par.N, par.a, par.b), crf |-> Crf(par.i, par.n), crfNext |-> IF par.n + 1 \in Years THEN Crf(par.i, par.n + 1) ELSE <<0, 1>>,      \* (1 + i)^5 would leave 32 bits
                           halfsq |-> Norm(par.A, par.N)])>>)

(* ---- Part 2 ---- *)
SumQ(F(_), s) == FoldSeq(LAMBDA x, acc : acc + F(x), 0, s)
(* interval record: q (duty x K), d1, d2 (end differences x K), L (log mean x K), rn/rd (summed film resistance) *)
IntervalOK(v) ==
  /\ v.d1 > 0 /\ v.d2 > 0 /\ v.L > 0
  /\ 10 * Min({v.d1, v.d2}) <= 10 * v.L + 10 /\ 2 * v.L <= v.d1 + v.d2 + 2
  (* Carlson / Polya: G^(2/3) A^(1/3) <= L <= (2 G + A)/3 with G = sqrt(d1 d2), A = (d1 + d2)/2; scaled down to stay in 32 bits *)
  /\ LET s == (Max({v.d1, v.d2}) \div 400) + 1
         a1 == v.d1 \div s   a2 == v.d2 \div s   L == v.L \div s
     IN  /\ 2 * (L + 2) * (L + 2) * (L + 2) >= a1 * a2 * (a1 + a2)
         /\ (6 * (L - 2) <= 3 * (a1 + a2)) /\ ((6 * (L - 2) - (a1 + a2) <= 0) \/ (6 * (L - 2) - (a1 + a2)) * (6 * (L - 2) - (a1 + a2)) <= 16 * (a1 + 1) * (a2 + 1))
EvFails(e) ==
  (IF Abs(e.spanHot - e.spanCold) <= 2 THEN {} ELSE {"C15.balanced_curves_equal_spans"})
  \cup (IF Abs(SumQ(LAMBDA v : v.q, e.ints) - e.spanHot) <= Len(e.ints) + 2 THEN {} ELSE {"C15.interval_duties_sum_to_span"})
  \cup (IF \A k \in 1..Len(e.ints) : IntervalOK(e.ints[k]) THEN {} ELSE {"C15.log_mean_within_bracket"})
  \cup (IF e.area > 0 THEN {} ELSE {"C15.area_positive_finite"})
  (* area x K = sum q_i (rn/rd) K / L_i ; integer division error <= 1 per interval *)
  \cup (IF Abs(SumQ(LAMBDA v : (((v.q * v.rn) \div v.rd) * 100) \div v.L, e.ints) - e.area) * 1000 <= 2 * e.area + 3000 * (Len(e.ints) + 1) + 1000 * e.approx      \* e.approx: resolution of the rational transport of the resistances (denominators <= 24), computed by the sender
        THEN {} ELSE {"C15.area_is_sum_of_interval_areas"})
  \cup (IF e.costExp1 = 0 \/ Abs(e.cost - (e.N * e.a + e.b * (e.area \div 100))) * 1000 <= 2 * e.cost + 1000 * e.b THEN {} ELSE {"C15.capital_cost_law"})

TStep == /\ phase = "trace" /\ l <= Len(Trace)
         /\ LET f == EvFails(Trace[l]) IN f = {} \/ PrintT(<<"VERDICT", ToJson([id |-> Trace[l].id, fails |-> SetToSeq(f)])>>)
         /\ l' = l + 1 /\ UNCHANGED <<par, phase>>
Next == Eval \/ TStep
Spec == Init /\ [][Next]_vars
TraceAccepted == ~HasTrace \/ TLCGet("stats").diameter - 1 = Len(Trace)
=============================================================================
