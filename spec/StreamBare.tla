----------------------------- MODULE StreamBare -----------------------------
(***************************************************************************)
(* OpenPinch/classes/stream.py: a Stream constructed WITHOUT temperatures  *)
(* (Stream(name, heat_flow=q, dt_cont=d, htc=h): supply and target are     *)
(* None) and given its attributes one assignment at a time -- the other    *)
(* half of "any sequence of attribute assignments" (C19): StreamObject.tla *)
(* starts from a stream that was constructed complete.                     *)
(*                                                                         *)
(* _update_attributes returns early while a temperature is missing; what   *)
(* it does before returning is the point of this module: the resistance    *)
(* follows the film coefficient at once (repair recorded in                *)
(* known_findings.json; mutant BareHtrStale = the behaviour before it: the *)
(* resistance is only recomputed once both temperatures are there).        *)
(*                                                                         *)
(* The record s of StreamObject is extended by the flags hasTs / hasTt.    *)
(* The relations that speak about a span (duty, order, shift) are stated   *)
(* for complete streams; the reciprocal relation for every state.          *)
(***************************************************************************)
EXTENDS StreamObject

CONSTANT BareHtrStale

Complete(r) == r.hasTs /\ r.hasTt

(* _update_attributes on a possibly incomplete stream *)
UpdateB(r) ==
  LET r0 == IF BareHtrStale THEN r ELSE [r EXCEPT !.htr = Norm(1, r.htc)]
  IN  IF Complete(r0) THEN Update(r0) ELSE r0

(* a complete stream that was never classified and has equal temperatures and zero duty: _update_attributes raises  *)
(* AttributeError('_t_max') there (known finding KF-C14-dead-stream / KF-C19-dead); such steps are not taken        *)
Raises(r) == Complete(r) /\ r.kind = "none" /\ r.ts = r.tt /\ r.q = 0

InitB ==
  /\ \E q \in QVals, d \in DVals, h \in HVals :
        /\ s = [ts |-> 0, tt |-> 0, q |-> q, dtc |-> d, htc |-> h, kind |-> "none",
                tmin |-> 0, tmax |-> 0, tminS |-> 0, tmaxS |-> 0, cp |-> RZero, htr |-> Norm(1, h), rcp |-> RZero,
                hasTs |-> FALSE, hasTt |-> FALSE]
        /\ hist = << <<"bare", <<q, d, h>>>> >>

OpB(name, v, pre) == ~Raises(pre) /\ Op(name, v, UpdateB(pre))

SetTsB == \E v \in TVals : OpB("t_supply", v, [s EXCEPT !.ts = v, !.hasTs = TRUE])
SetTtB == \E v \in TVals : OpB("t_target", v, [s EXCEPT !.tt = v, !.hasTt = TRUE])
SetQB  == \E v \in QVals : OpB("heat_flow", v, [s EXCEPT !.q = v])
SetDB  == \E v \in DVals : OpB("dt_cont", v, [s EXCEPT !.dtc = v])
SetHB  == \E v \in HVals : OpB("htc", v, [s EXCEPT !.htc = v])
(* set_heat_flow: CP only when both temperatures are there and differ; never through _update_attributes *)
SetHFB == \E v \in QVals :
            Op("set_heat_flow", v,
               IF Complete(s) /\ Abs_(s.ts - s.tt) > 0
               THEN LET c == Norm(v, Abs_(s.ts - s.tt))
                    IN  [s EXCEPT !.q = v, !.cp = c, !.rcp = RMul(s.htr, c)]
               ELSE [s EXCEPT !.q = v])

NextB == SetTsB \/ SetTtB \/ SetQB \/ SetDB \/ SetHB \/ SetHFB
SpecB == InitB /\ [][NextB]_vars

(* C19 on a stream that is being assembled *)
C19B_Recip   == Reciprocal
C19B_Duty    == Complete(s) => (DutyClosed \/ Dead)
C19B_Ordered == Complete(s) => Ordered
C19B_Shift   == Complete(s) => (ShiftByKind \/ Dead)

EmitCaseB == (DoEmit /\ Len(hist) = MaxOps + 1) => PrintT(<<"CASE", ToJson([hist |-> hist, s |-> s])>>)
=============================================================================
