---------------------------- MODULE CascadeDefs ----------------------------
(***************************************************************************)
(* Problem-table heat cascade of OpenPinch on an integer lattice.          *)
(*                                                                         *)
(* Two descriptions live side by side:                                     *)
(*   * DEFINITIONAL operators (suffix Def / HotBelow / ColdBelow / ...):   *)
(*     the property statements of C01, C05, C06 transcribed directly --    *)
(*     exact integrals of the streams, max-deficit targets, zero set.      *)
(*   * IMPLEMENTATION-SHAPED operators and actions: what                   *)
(*     OpenPinch/analysis/problem_table_analysis.py does, step by step     *)
(*     (grid -> interval activity -> CP sums -> cumulative sums -> shift   *)
(*     -> real table -> recovery offset -> targets -> pinch rows).         *)
(* TLC enumerates every bounded input in Init, runs the machine and checks *)
(* the invariants that relate the two.  The same run exports every case    *)
(* (input + definitional expectations + implementation-shaped table) as a  *)
(* JSON line that the Python harness replays into the real code.           *)
(*                                                                         *)
(* Lattice: one unit = 0.01 K under the native embedding, all quantities   *)
(* integers.  On the lattice every tolerance comparison of the code        *)
(* coincides with the exact comparison of the same strictness.             *)
(***************************************************************************)
(* This module holds the pure operators (stream universe, definitional and *)
(* implementation-shaped); Cascade.tla is the machine, Utility.tla and the  *)
(* trace modules reuse the operators.                                       *)
EXTENDS Integers, Sequences, FiniteSets, TLC, SequencesExt, FiniteSetsExt, Json

CONSTANTS
  Temps,        \* lattice temperatures for supply/target of ordinary streams
  CPs,          \* heat-capacity flow rates of ordinary streams
  DTCs,         \* per-stream minimum-temperature-difference contributions
  LatentCPs,    \* CP of 1-unit wide (latent) streams; {} = no latent streams
  ActStrict,    \* mutant switch: FALSE = non-strict interval activity test
  ShiftByMin    \* mutant switch: FALSE = shift cascade by last row instead of min

Max2(a, b) == IF a >= b THEN a ELSE b
Min2(a, b) == IF a <= b THEN a ELSE b
SumSeq(F(_), s) == FoldSeq(LAMBDA x, acc : acc + F(x), 0, s)
SeqMin(s) == Min({s[i] : i \in 1..Len(s)})
SeqMax(s) == Max({s[i] : i \in 1..Len(s)})

---------------------------------------------------------------------------
(* Streams *)

TMin == Min(Temps)
TMax == Max(Temps)

Ordinary == { [k |-> k, lo |-> lo, hi |-> hi, cp |-> cp, dtc |-> d] :
                k \in {"H", "C"}, lo \in Temps, hi \in Temps, cp \in CPs, d \in DTCs }
Latent   == { [k |-> k, lo |-> IF k = "H" THEN t - 1 ELSE t,
                         hi |-> IF k = "H" THEN t ELSE t + 1, cp |-> cp, dtc |-> d] :
                k \in {"H", "C"}, t \in Temps, cp \in LatentCPs, d \in DTCs }
Universe == { s \in Ordinary : s.lo < s.hi } \cup Latent
USeq     == SetToSeq(Universe)
NU       == Len(USeq)

(* utility ladders: cp = 0, they only contribute grid rows *)
Ut(k, lo, hi, d) == [k |-> k, lo |-> lo, hi |-> hi, cp |-> 0, dtc |-> d]
UtilLadder(o) ==
  CASE o = 0 -> <<>>
    [] o = 1 -> << Ut("H", TMax + 140, TMax + 150, 50), Ut("C", TMin - 150, TMin - 140, 50) >>
    [] o = 2 -> << Ut("H", TMin + 140, TMin + 150, 0),  Ut("C", TMin + 150, TMin + 160, 0) >>
    [] o = 3 -> << Ut("H", TMax + 140, TMax + 150, 50), Ut("H", TMin + 90, TMin + 150, 50),
                   Ut("C", TMin - 150, TMin - 100, 0) >>

ShLo(s) == IF s.k = "H" THEN s.lo - s.dtc ELSE s.lo + s.dtc
ShHi(s) == IF s.k = "H" THEN s.hi - s.dtc ELSE s.hi + s.dtc
Lo(s, sh) == IF sh THEN ShLo(s) ELSE s.lo
Hi(s, sh) == IF sh THEN ShHi(s) ELSE s.hi
Duty(s)   == s.cp * (s.hi - s.lo)
Kind(S, k) == SelectSeq(S, LAMBDA s : s.k = k)

---------------------------------------------------------------------------
(* DEFINITIONAL operators -- the property statements *)

Below(s, T, sh)    == s.cp * Max2(0, Min2(T, Hi(s, sh)) - Lo(s, sh))
HotBelow(S, T, sh)  == SumSeq(LAMBDA s : Below(s, T, sh), Kind(S, "H"))
ColdBelow(S, T, sh) == SumSeq(LAMBDA s : Below(s, T, sh), Kind(S, "C"))
TotHot(S)  == SumSeq(Duty, Kind(S, "H"))
TotCold(S) == SumSeq(Duty, Kind(S, "C"))
Breaks(S, sh) == { Lo(S[i], sh) : i \in 1..Len(S) } \cup { Hi(S[i], sh) : i \in 1..Len(S) }

(* net heat deficit above the shifted temperature T *)
Deficit(S, T) == (TotCold(S) - ColdBelow(S, T, TRUE)) - (TotHot(S) - HotBelow(S, T, TRUE))
BrkSeq(S)     == SetToSortSeq(Breaks(S, TRUE), LAMBDA a, b : a > b)      \* descending

(* All definitional quantities of a stream sequence S in one record (LET-bound *)
(* values are evaluated once; TLC does not memoise operator applications).    *)
(*   Qh = largest net deficit above any shifted temperature (or 0)            *)
(*   Qc = Qh - total cold duty + total hot duty,  Qr = total hot duty - Qc    *)
(*   res[i] = exact residual heat flow crossing breakpoint brk[i]  (>= 0)     *)
(* C06 reading (DESIGN 7/C06): the residual is piecewise linear with          *)
(* breakpoints in brk and >= 0, so its zero set is the union of the zero      *)
(* breakpoints and of the segments joining consecutive zero breakpoints.      *)
(* If Qh = 0 the zero run touching the top collapses to its lowest point, if  *)
(* Qc = 0 the run touching the bottom collapses to its highest point; the hot *)
(* pinch is the highest, the cold pinch the lowest remaining zero.            *)
Analysis(S) ==
  LET th  == TotHot(S)
      tc  == TotCold(S)
      b   == BrkSeq(S)
      n   == Len(b)
      def == [i \in 1..n |-> Deficit(S, b[i])]
      qh  == Max({0} \cup { def[i] : i \in 1..n })
      qc  == qh - tc + th
      res == [i \in 1..n |-> qh - def[i]]
      Z   == { i \in 1..n : res[i] = 0 }
      top == { j \in 1..n : \A m \in 1..j : res[m] = 0 }        \* indices of the top zero run
      bot == { j \in 1..n : \A m \in j..n : res[m] = 0 }        \* indices of the bottom zero run
      z1  == IF qh = 0 /\ top # {} THEN (Z \ top) \cup {Max(top)} ELSE Z
      z2  == IF qc = 0 /\ bot # {} THEN z1 \ (bot \ {Min(bot)}) ELSE z1
      absent == (Z = 1..n) \/ z2 = {}
  IN  [ Qh |-> qh, Qc |-> qc, Qr |-> th - qc, totHot |-> th, totCold |-> tc,
        brk |-> b, res |-> res,
        zeros |-> [j \in 1..Cardinality(Z) |-> b[SetToSortSeq(Z, LAMBDA x, y : x < y)[j]]],
        inner |-> { b[i] : i \in Z \ (top \cup bot) },
        pinchAbsent |-> absent,
        hotPinch  |-> IF absent THEN 0 ELSE b[Min(z2)],
        coldPinch |-> IF absent THEN 0 ELSE b[Max(z2)] ]

QhDef(S) == Analysis(S).Qh
QcDef(S) == Analysis(S).Qc
QrDef(S) == Analysis(S).Qr

---------------------------------------------------------------------------
(* IMPLEMENTATION-SHAPED operators *)

(* create_problem_table_with_t_int: every bound of every stream AND utility, *)
(* rounded to 6 dp (identity on the lattice), unique, descending             *)
Grid(S, U, sh) == SetToSortSeq(Breaks(S \o U, sh), LAMBDA a, b : a > b)

(* _sum_mcp_between_temperature_boundaries.calc_active_matrix *)
Active(s, lower, upper, sh) ==
  IF ActStrict THEN Hi(s, sh) > lower /\ Lo(s, sh) < upper
               ELSE Hi(s, sh) >= lower /\ Lo(s, sh) <= upper
CPIn(S, k, lower, upper, sh) ==
  SumSeq(LAMBDA s : IF Active(s, lower, upper, sh) THEN s.cp ELSE 0, Kind(S, k))

(* problem_table_algorithm on grid T (a sequence), activity on scale shAct *)
Table(S, T, shAct) ==
  LET n    == Len(T)
      dT   == [i \in 1..n |-> IF i = 1 THEN 0 ELSE T[i-1] - T[i]]
      cpH  == [i \in 1..n |-> IF i = 1 THEN 0 ELSE CPIn(S, "H", T[i], T[i-1], shAct)]
      cpC  == [i \in 1..n |-> IF i = 1 THEN 0 ELSE CPIn(S, "C", T[i], T[i-1], shAct)]
      dHh  == [i \in 1..n |-> dT[i] * cpH[i]]
      dHc  == [i \in 1..n |-> dT[i] * cpC[i]]
      dHn  == [i \in 1..n |-> dT[i] * (cpC[i] - cpH[i])]
      RECURSIVE Cum(_, _)
      Cum(f, i) == IF i = 0 THEN 0 ELSE Cum(f, i - 1) + f[i]
      cumH == [i \in 1..n |-> Cum(dHh, i)]
      cumC == [i \in 1..n |-> Cum(dHc, i)]
      raw  == [i \in 1..n |-> -Cum(dHn, i)]
      minH == IF ShiftByMin THEN SeqMin(raw) ELSE raw[n]
      shift == raw[n] - minH
  IN  [ T |-> T, dT |-> dT, cpH |-> cpH, cpC |-> cpC, dHh |-> dHh, dHc |-> dHc, dHn |-> dHn,
        Hhot  |-> [i \in 1..n |-> cumH[n] - cumH[i]],
        Hcold |-> [i \in 1..n |-> cumC[n] + shift - cumC[i]],
        Hnet  |-> [i \in 1..n |-> raw[i] - minH] ]

HeatRecovery(t) == t.Hhot[1] - t.Hnet[Len(t.T)]

(* _shift_pt_to_set_heat_recovery *)
ShiftForRecovery(t, known) ==
  LET d == HeatRecovery(t) - known IN
  [t EXCEPT !.Hcold = [i \in DOMAIN t.Hcold |-> t.Hcold[i] + d],
            !.Hnet  = [i \in DOMAIN t.Hnet  |-> t.Hnet[i]  + d]]

(* ProblemTable.pinch_idx on a column h (tolerance = exact zero on the lattice) *)
PinchIdx(h) ==
  LET n  == Len(h)
      Z  == { i \in 1..n : h[i] = 0 }
      NZ == (1..n) \ Z
  IN  IF Z # {} /\ NZ # {}
      THEN LET fz == Min(Z)
               lz == Max(Z)
               rh == IF fz > 1 THEN fz ELSE Min(NZ) - 1
               rc == IF lz < n THEN lz ELSE Max(NZ) + 1
           IN  [h |-> rh, c |-> rc, valid |-> rh <= rc]
      ELSE [h |-> n, c |-> 1, valid |-> FALSE]

(* multisets of n streams = non-decreasing index sequences into USeq *)
RECURSIVE IdxSeqs(_)
IdxSeqs(n) == IF n = 1 THEN { <<a>> : a \in 1..NU }
              ELSE UNION { { Append(s, b) : b \in s[n-1]..NU } : s \in IdxSeqs(n - 1) }
IdxSum(f)  == FoldSeq(LAMBDA x, acc : acc + x, 0, f)

(* The same multisets, enumerated lazily by nested quantifiers: TLC materialises and sorts the set IdxSeqs(3) before it   *)
(* yields the first element (minutes for a 190-element universe, all in the single-threaded initial-state phase), while   *)
(* nested \E are streamed.  P is the rest of the initial predicate for the chosen index sequence.  Up to 4 streams.       *)
ForEachMultiset(m, P(_)) ==
  \/ \E a \in 1..NU : P(<<a>>)
  \/ m >= 2 /\ \E a \in 1..NU : \E b \in a..NU : P(<<a, b>>)
  \/ m >= 3 /\ \E a \in 1..NU : \E b \in a..NU : \E c \in b..NU : P(<<a, b, c>>)
  \/ m >= 4 /\ \E a \in 1..NU : \E b \in a..NU : \E c \in b..NU : \E d \in c..NU : P(<<a, b, c, d>>)

=============================================================================
