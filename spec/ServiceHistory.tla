--------------------------- MODULE ServiceHistory ---------------------------
(***************************************************************************)
(* Process-wide state of the library under histories of calls (C11) and    *)
(* the PinchProblem wrapper under load / target / export sequences (C16).  *)
(*                                                                         *)
(* Abstract state:                                                         *)
(*   acc        graph keys surviving in get_output_graph_data's default    *)
(*              argument (empty for ever after /repo commit 8b219ee)       *)
(*   model[p]   state of the caller's reusable TargetInput model of        *)
(*              problem p: "pristine" or "mutated"                         *)
(*   nested[p]  state of the caller's reusable stream / utility schema     *)
(*              objects of problem p, handed over inside a plain dict      *)
(*   w          the wrapper object: loaded problem, channel, cached result *)
(*   res        what the last call returned: which problem it describes,   *)
(*              which foreign graph keys it carries, whether it was        *)
(*              computed or served from the cache                          *)
(* Fresh(p) -- the result of analysing p in a fresh interpreter -- is      *)
(* "describes p, no foreign graph keys".                                   *)
(***************************************************************************)
EXTENDS Integers, Sequences, FiniteSets, TLC, Json

CONSTANTS Probs, Channels, MaxOps, DoEmit,
          EnableCalls, EnableWrapper,   \* which families of operations a configuration explores
          SharedGraphDefault,   \* mutant / old defect: graph sets accumulate in a shared default dict
          MutatesModel,         \* mutant / old defect: a passed TargetInput model is modified in place
          LoadKeepsCache,       \* mutant / old defect: load() keeps the cached result of the previous problem
          MutatesNested         \* mutant / old defect: schema objects placed in a plain dictionary are modified in place

VARIABLES acc, model, nested, w, res, hist, computed
vars == <<acc, model, nested, w, res, hist, computed>>

NoRes == [prob |-> 0, foreign |-> {}, cached |-> FALSE, kind |-> "none"]

Init == /\ acc = {} /\ model = [p \in Probs |-> "pristine"] /\ nested = [p \in Probs |-> "pristine"]
        /\ w = [loaded |-> 0, ch |-> "none", cache |-> 0]
        /\ res = NoRes /\ hist = <<>> /\ computed = 0

Step(op) == Len(hist) < MaxOps /\ hist' = Append(hist, op)

(* pinch_analysis_service(data): the analysis proper *)
Analyse(p, kind) ==
  /\ res' = [prob |-> p, foreign |-> (IF SharedGraphDefault THEN acc \ {p} ELSE {}), cached |-> FALSE, kind |-> kind]
  /\ acc' = IF SharedGraphDefault THEN acc \cup {p} ELSE acc
  /\ computed' = computed + 1

CallDict(p)  == Step(<<"call_dict", p>>)  /\ Analyse(p, "service") /\ UNCHANGED <<model, nested, w>>
CallUnits(p) == Step(<<"call_units", p>>) /\ Analyse(p, "service") /\ UNCHANGED <<model, nested, w>>
CallModel(p) == Step(<<"call_model", p>>) /\ Analyse(p, "service") /\ UNCHANGED <<model, nested, w>>      \* a fresh model object
CallModelReused(p) ==
  /\ Step(<<"call_model_reused", p>>)
  /\ Analyse(p, "service")
  /\ model' = IF MutatesModel THEN [model EXCEPT ![p] = "mutated"] ELSE model
  /\ UNCHANGED <<nested, w>>
(* a plain dictionary whose entries are the caller's own (reused) stream / utility schema objects *)
CallNestedReused(p) ==
  /\ Step(<<"call_nested_reused", p>>)
  /\ Analyse(p, "service")
  /\ nested' = IF MutatesNested THEN [nested EXCEPT ![p] = "mutated"] ELSE nested
  /\ UNCHANGED <<model, w>>

WLoad(p, ch) ==
  /\ Step(<<"load", p, ch>>)
  /\ w' = [loaded |-> p, ch |-> ch, cache |-> IF LoadKeepsCache THEN w.cache ELSE 0]
  /\ res' = [NoRes EXCEPT !.kind = "load"]
  /\ UNCHANGED <<acc, model, nested, computed>>
WTarget ==
  /\ w.loaded # 0
  /\ Step(<<"target">>)
  /\ IF w.cache # 0
     THEN /\ res' = [prob |-> w.cache, foreign |-> {}, cached |-> TRUE, kind |-> "target"]
          /\ UNCHANGED <<acc, computed, w>>
     ELSE /\ Analyse(w.loaded, "target")
          /\ w' = [w EXCEPT !.cache = w.loaded]
  /\ UNCHANGED <<model, nested>>
WExport ==
  /\ w.loaded # 0
  /\ Step(<<"export">>)
  /\ IF w.cache # 0
     THEN /\ res' = [prob |-> w.cache, foreign |-> {}, cached |-> TRUE, kind |-> "export"] /\ UNCHANGED <<acc, computed, w>>
     ELSE /\ Analyse(w.loaded, "export") /\ w' = [w EXCEPT !.cache = w.loaded]
  /\ UNCHANGED <<model, nested>>

Next == \/ (EnableCalls /\ \E p \in Probs : CallDict(p) \/ CallUnits(p) \/ CallModel(p) \/ CallModelReused(p) \/ CallNestedReused(p))
        \/ (EnableWrapper /\ ((\E p \in Probs, ch \in Channels : WLoad(p, ch)) \/ WTarget \/ WExport))
Spec == Init /\ [][Next]_vars

---------------------------------------------------------------------------
LastOp == hist[Len(hist)]
(* C11: the result of every analysis is the fresh-process result of the problem passed in *)
C11_Pure ==
  (hist # <<>> /\ res.kind = "service") => res.prob = LastOp[2] /\ res.foreign = {}
C11_InputUnchanged == \A p \in Probs : model[p] = "pristine" /\ nested[p] = "pristine"
C11_NoModuleState  == acc = {}
(* C16: the wrapper answers for the problem that is loaded, from whichever channel; a repeated target is served from the cache *)
C16_WrapperDescribesLoaded ==
  (res.kind \in {"target", "export"}) => res.prob = w.loaded /\ res.foreign = {}
C16_RepeatIsCached ==
  [][ (Len(hist') > Len(hist) /\ hist'[Len(hist')] = <<"target">> /\ hist # <<>> /\ LastOp \in {<<"target">>, <<"export">>})
        => (res'.cached /\ computed' = computed) ]_vars

(* state constraint of the wrapper-focused configuration: a history never loads twice in a row *)
NoDoubleLoad == ~(Len(hist) >= 2 /\ hist[Len(hist)][1] = "load" /\ hist[Len(hist) - 1][1] = "load")

EmitCase == (DoEmit /\ Len(hist) = MaxOps) => PrintT(<<"CASE", ToJson([hist |-> hist])>>)
=============================================================================
