------------------------- MODULE ServiceHistoryInd -------------------------
(***************************************************************************)
(* ServiceHistory without its history variable: the same actions on the    *)
(* same abstract state (acc, model, w, res), so that the properties of C11 *)
(* and C16 can be stated as an INDUCTIVE invariant and discharged for      *)
(* histories of ANY length (Apalache: Init => IndInv at length 0,          *)
(* IndInv /\ Next => IndInv' at length 1), not only for the <= 5 calls the *)
(* exhaustive TLC configurations of ServiceHistory reach.                  *)
(*                                                                         *)
(* That this module describes the same machine is itself checked, by TLC:  *)
(* spec/ServiceHistoryRef.tla instantiates it inside ServiceHistory and    *)
(* checks the refinement  ServiceHistory!Spec => ServiceHistoryInd!Spec.   *)
(*                                                                         *)
(* The switches are those of ServiceHistory: with any of them TRUE the     *)
(* induction step fails (harness: the three mutants must be rejected).     *)
(***************************************************************************)
EXTENDS Integers, FiniteSets

CONSTANTS
  \* @type: Set(Int);
  Probs,
  \* @type: Set(Str);
  Channels,
  \* @type: Bool;
  SharedGraphDefault,
  \* @type: Bool;
  MutatesModel,
  \* @type: Bool;
  LoadKeepsCache,
  \* @type: Bool;
  MutatesNested

VARIABLES
  \* @type: Set(Int);
  acc,
  \* @type: Int -> Str;
  model,
  \* @type: Int -> Str;
  nested,
  \* @type: { loaded: Int, ch: Str, cache: Int };
  w,
  \* @type: { prob: Int, foreign: Set(Int), cached: Bool, kind: Str };
  res

NoRes == [prob |-> 0, foreign |-> {}, cached |-> FALSE, kind |-> "none"]

Init == /\ acc = {} /\ model = [p \in Probs |-> "pristine"] /\ nested = [p \in Probs |-> "pristine"]
        /\ w = [loaded |-> 0, ch |-> "none", cache |-> 0]
        /\ res = NoRes

Analyse(p, kind) ==
  /\ res' = [prob |-> p, foreign |-> (IF SharedGraphDefault THEN acc \ {p} ELSE {}), cached |-> FALSE, kind |-> kind]
  /\ acc' = IF SharedGraphDefault THEN acc \cup {p} ELSE acc

Call(p) == Analyse(p, "service") /\ UNCHANGED <<model, nested, w>>          \* dictionary, value-with-unit dictionary, fresh model
CallModelReused(p) ==
  /\ Analyse(p, "service")
  /\ model' = IF MutatesModel THEN [model EXCEPT ![p] = "mutated"] ELSE model
  /\ UNCHANGED <<nested, w>>
CallNestedReused(p) ==
  /\ Analyse(p, "service")
  /\ nested' = IF MutatesNested THEN [nested EXCEPT ![p] = "mutated"] ELSE nested
  /\ UNCHANGED <<model, w>>

WLoad(p, ch) ==
  /\ w' = [loaded |-> p, ch |-> ch, cache |-> IF LoadKeepsCache THEN w.cache ELSE 0]
  /\ res' = [NoRes EXCEPT !.kind = "load"]
  /\ UNCHANGED <<acc, model, nested>>
WServe(kind) ==
  /\ w.loaded # 0
  /\ IF w.cache # 0
     THEN /\ res' = [prob |-> w.cache, foreign |-> {}, cached |-> TRUE, kind |-> kind]
          /\ UNCHANGED <<acc, w>>
     ELSE /\ Analyse(w.loaded, kind)
          /\ w' = [w EXCEPT !.cache = w.loaded]
  /\ UNCHANGED <<model, nested>>

Next == \/ \E p \in Probs : Call(p) \/ CallModelReused(p) \/ CallNestedReused(p)
        \/ \E p \in Probs, ch \in Channels : WLoad(p, ch)
        \/ WServe("target") \/ WServe("export")
vars == <<acc, model, nested, w, res>>
Spec == Init /\ [][Next]_vars

---------------------------------------------------------------------------
Kinds == {"none", "load", "service", "target", "export"}
TypeOK ==
  /\ acc \subseteq Probs
  /\ model \in [Probs -> {"pristine", "mutated"}]
  /\ nested \in [Probs -> {"pristine", "mutated"}]
  /\ w.loaded \in Probs \cup {0} /\ w.cache \in Probs \cup {0} /\ w.ch \in Channels \cup {"none"}
  /\ res.prob \in Probs \cup {0} /\ res.foreign \subseteq Probs /\ res.kind \in Kinds /\ res.cached \in BOOLEAN

(* the properties (C11: no module state, inputs unchanged, results without foreign graph keys;       *)
(* C16: the wrapper answers for the loaded problem) together with the fact that makes them inductive *)
IndInv ==
  /\ TypeOK
  /\ acc = {}                                                         \* C11_NoModuleState
  /\ \A p \in Probs : model[p] = "pristine" /\ nested[p] = "pristine"  \* C11_InputUnchanged
  /\ res.foreign = {}                                                 \* C11_Pure (second half)
  /\ (res.kind \in {"target", "export"} => res.prob = w.loaded)       \* C16_WrapperDescribesLoaded
  /\ (w.cache # 0 => w.cache = w.loaded)                              \* the cache never outlives the problem it was computed for
  /\ (w.loaded = 0 => w.cache = 0)
=============================================================================
