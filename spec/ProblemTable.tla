---------------------------- MODULE ProblemTable ----------------------------
(***************************************************************************)
(* ProblemTable.insert_temperature_interval (OpenPinch/classes/            *)
(* problem_table.py) on an integer lattice, and histories of such calls    *)
(* (property C08).                                                         *)
(*                                                                         *)
(* A table is a sequence of rows; a row is a record                        *)
(*   T, dT   temperature and interval width (integers)                     *)
(*   cp, dh  one heat-capacity / enthalpy-change column pair (integers)    *)
(*   H, G    two cumulative ("interpolation") columns, exact rationals;    *)
(*           G may be NaN (a column the pipeline has not populated yet)    *)
(*   X       one other non-curve column (e.g. rCP): integer or NaN         *)
(* which is one representative of each of the four column classes the code *)
(* distinguishes (T/dT, HEAT_CAPACITY_PAIRS, INTERPOLATION_KEYS, the rest).*)
(*                                                                         *)
(* Insert(tab, req) is the implementation-shaped transcription, helper by  *)
(* helper; the operators below "Property predicates" are the statement of  *)
(* C08 written independently.                                              *)
(***************************************************************************)
EXTENDS Integers, Sequences, FiniteSets, TLC, SequencesExt, FiniteSetsExt, Json, Rational

CONSTANTS
  RowTemps,      \* temperatures a table row may have
  MaxRows,       \* tables of 2..MaxRows rows
  CPVals,        \* heat-capacity values of rows 2..n  (row 1 has cp = 0, as every pipeline table)
  ReqTemps,      \* temperatures a request may contain
  MaxReq,        \* a request is a sequence (unsorted, duplicates allowed) of 1..MaxReq temperatures
  MaxReq2,       \* length bound for the requests of the 2nd and later calls
  MaxCalls,      \* histories of 1..MaxCalls calls
  DoEmit,
  \* mutant switches (FALSE/FALSE/... = the code as repaired)
  MidDTBelow,    \* defect fixed by b2d15c3: new mid rows take the gap to the row BELOW, upper neighbour overwritten
  BottomAsc,     \* defect fixed by 92f487c: bottom block built in ascending order
  InterpFromTop  \* wrong interpolation weight

VARIABLES tab, hist, last
vars == <<tab, hist, last>>

NaN == <<0, 0>>
IsNaN(v) == v[2] = 0
n_(t) == Len(t)

---------------------------------------------------------------------------
(* IMPLEMENTATION-SHAPED: insert_temperature_interval *)

(* _Ts_needing_insertion: keep requests further than tol from every row *)
(* (TLC shows this filter is redundant on the lattice: the strict top / inside / bottom tests *)
(*  of the categorisation already drop a temperature equal to a row)                        *)
Needing(t, req) == SelectSeq(req, LAMBDA x : \A i \in 1..Len(t) : t[i].T # x)

Desc(S)  == SetToSortSeq(S, LAMBDA a, b : a > b)
Asc(S)   == SetToSortSeq(S, LAMBDA a, b : a < b)

(* _categorise_insertion_targets; sets de-duplicate (dedupe within tol = equality on the lattice) *)
TopTemps(t, need)    == { x \in ToSet(need) : x > t[1].T }
BottomTemps(t, need) == { x \in ToSet(need) : x < t[Len(t)].T }
(* middle: index of the lower neighbour = first row not above x; strictly inside *)
LowerIdx(t, x) == CHOOSE i \in 2..Len(t) : t[i].T <= x /\ t[i-1].T > x
MidTemps(t, need, i) ==
  { x \in ToSet(need) : /\ ~(x > t[1].T) /\ ~(x < t[Len(t)].T)
                        /\ \E j \in 2..Len(t) : t[j].T <= x /\ t[j-1].T > x
                        /\ LowerIdx(t, x) = i
                        /\ t[i-1].T > x /\ x > t[i].T }

XNaN == -999
ZeroOrNaN(v) == IF v = XNaN THEN XNaN ELSE 0

(* _build_top_or_bottom_block, top: rows built upwards from the old first row *)
(* temps ascending t1 < ... < tk; dT bookkeeping as coded (k = 1 keeps a     *)
(* non-zero dT on the new first row; k > 1 shifts the widths down and puts 0 *)
(* on the new first row)                                                     *)
TopBlock(r0, S) ==
  LET a == Asc(S)
      k == Len(a)
      raw == [i \in 1..k |-> a[i] - (IF i = 1 THEN r0.T ELSE a[i-1])]
      dTs == [i \in 1..k |-> IF k = 1 THEN raw[1]
                              ELSE IF i = k THEN 0 ELSE raw[i+1]]
      row(i) == [T |-> a[i], dT |-> dTs[i], cp |-> 0, dh |-> 0, H |-> r0.H, G |-> r0.G, X |-> ZeroOrNaN(r0.X)]
  IN  [ rows |-> [i \in 1..k |-> row(k + 1 - i)],            \* block[::-1]: descending
        r0   |-> IF k = 0 THEN r0 ELSE [r0 EXCEPT !.dT = raw[1]] ]

(* bottom: rows built downwards from the old last row *)
BottomBlock(rn, S) ==
  LET d == IF BottomAsc THEN Asc(S) ELSE Desc(S)
      k == Len(d)
      row(i) == [T |-> d[i], dT |-> (IF i = 1 THEN rn.T ELSE d[i-1]) - d[i], cp |-> 0, dh |-> 0,
                 H |-> rn.H, G |-> rn.G, X |-> ZeroOrNaN(rn.X)]
  IN  IF BottomAsc THEN [i \in 1..k |-> row(k + 1 - i)] ELSE [i \in 1..k |-> row(i)]

(* _interpolate_heat_columns for one curve column *)
InterpCol(top, bot, Tt, Tb, x) ==
  IF IsNaN(bot) THEN NaN
  ELSE IF IsNaN(top) THEN bot
  ELSE LET ratio == IF InterpFromTop THEN Norm(Tt - x, Tt - Tb) ELSE Norm(x - Tb, Tt - Tb)
       IN  RAdd(bot, RMul(ratio, RSub(top, bot)))

(* _build_mid_block between upper row u and lower row l; temps descending *)
MidBlock(u, l, S) ==
  LET d == Desc(S)
      k == Len(d)
      chain == <<u.T>> \o d \o <<l.T>>
      dTof(i) == IF MidDTBelow THEN chain[i+1] - chain[i+2] ELSE chain[i] - chain[i+1]
      row(i) == [T |-> d[i], dT |-> dTof(i), cp |-> l.cp, dh |-> dTof(i) * l.cp,
                 H |-> InterpCol(u.H, l.H, u.T, l.T, d[i]),
                 G |-> InterpCol(u.G, l.G, u.T, l.T, d[i]), X |-> l.X]
      udT == IF MidDTBelow THEN chain[1] - chain[2] ELSE u.dT
      ldT == d[k] - l.T
  IN  [ rows |-> [i \in 1..k |-> row(i)],
        u |-> [u EXCEPT !.dT = udT, !.dh = udT * u.cp],      \* _update_heat_capacity_pairs(top_adjusted)
        l |-> [l EXCEPT !.dT = ldT, !.dh = ldT * l.cp] ]     \* _adjust_bottom_row

(* _apply_interval_map: edge blocks first, then the middle groups by rising index *)
RECURSIVE ApplyMid(_, _, _, _)
ApplyMid(t, need, i, acc) ==
  \* t: table after the edge rebuild (old rows only), i: lower index being processed,
  \* acc: rows emitted so far (old rows 1..i-1 with their new middle rows)
  IF i > Len(t) THEN acc
  ELSE LET S == MidTemps(t, need, i) IN
       IF S = {} THEN ApplyMid(t, need, i + 1, Append(acc, t[i]))
       ELSE LET u  == acc[Len(acc)]                       \* upper neighbour, possibly already adjusted
                mb == MidBlock(u, t[i], S)
            IN  ApplyMid(t, need, i + 1,
                         SubSeq(acc, 1, Len(acc) - 1) \o <<mb.u>> \o mb.rows \o <<mb.l>>)

Insert(t, req) ==
  IF Len(t) < 2 THEN [tab |-> t, n |-> 0]     \* guard at the top of insert_temperature_interval
  ELSE
  LET need == Needing(t, req)
      top  == TopTemps(t, need)
      bot  == BottomTemps(t, need)
      tb   == TopBlock(t[1], top)
      bb   == BottomBlock(t[Len(t)], bot)
      t1   == [t EXCEPT ![1] = tb.r0]
      mid  == ApplyMid(t1, need, 2, <<t1[1]>>)
      new  == tb.rows \o mid \o bb
  IN  [tab |-> new, n |-> Len(new) - Len(t)]

---------------------------------------------------------------------------
(* PROPERTY PREDICATES (C08 statement, written independently of Insert) *)

StrictlyDescending(t) == \A i \in 1..(Len(t) - 1) : t[i].T > t[i+1].T

(* value of curve column c of table t at temperature x: interpolated inside, end value outside *)
EvalH(t, x) ==
  IF x >= t[1].T THEN t[1].H
  ELSE IF x <= t[Len(t)].T THEN t[Len(t)].H
  ELSE LET i == CHOOSE j \in 1..(Len(t) - 1) : t[j].T >= x /\ x > t[j+1].T
       IN  IF t[i].T = x THEN t[i].H
           ELSE RInterp(R(x), R(t[i].T), t[i].H, R(t[i+1].T), t[i+1].H)
EvalG(t, x) ==
  IF x >= t[1].T THEN t[1].G
  ELSE IF x <= t[Len(t)].T THEN t[Len(t)].G
  ELSE LET i == CHOOSE j \in 1..(Len(t) - 1) : t[j].T >= x /\ x > t[j+1].T
       IN  IF t[i].T = x THEN t[i].G
           ELSE RInterp(R(x), R(t[i].T), t[i].G, R(t[i+1].T), t[i+1].G)
GAllNaN(t) == \A i \in 1..Len(t) : IsNaN(t[i].G)

SameCurves(old, new) ==
  \A j \in 1..Len(new) :
    /\ new[j].H = EvalH(old, new[j].T)
    /\ IF GAllNaN(old) THEN IsNaN(new[j].G) ELSE new[j].G = EvalG(old, new[j].T)

DTRule(t) == \A j \in 2..Len(t) : t[j].dT = t[j-1].T - t[j].T
DHRule(t) == \A j \in 1..Len(t) : t[j].dh = t[j].cp * t[j].dT
(* cumulative column = running sum of the enthalpy-change column (H plays the hot composite) *)
RunningSum(t) == \A j \in 2..Len(t) : RSub(t[j-1].H, t[j].H) = R(t[j].dh)

TempSet(t) == { t[i].T : i \in 1..Len(t) }

CallOK(old, req, res) ==
  /\ StrictlyDescending(res.tab)
  /\ SameCurves(old, res.tab)
  /\ DTRule(res.tab)
  /\ DHRule(res.tab)
  /\ (RunningSum(old) => RunningSum(res.tab))
  /\ res.n = Len(res.tab) - Len(old)
  /\ TempSet(res.tab) = TempSet(old) \cup ToSet(req)
  /\ Cardinality(TempSet(res.tab)) = Len(res.tab)                       \* no duplicates
  /\ LET again == Insert(res.tab, req) IN again.n = 0 /\ again.tab = res.tab   \* idempotent

---------------------------------------------------------------------------
(* The machine: all tables x all histories of calls *)

TempSeqs == { Desc(S) : S \in { S \in SUBSET RowTemps : Cardinality(S) >= 2 /\ Cardinality(S) <= MaxRows } }

(* a consistent table: cp of row 1 is 0, dT/dh/H follow from T and cp; G either NaN or a zig-zag; X from cp *)
MkTable(Ts, cps, gmode) ==
  LET n  == Len(Ts)
      dT == [i \in 1..n |-> IF i = 1 THEN 0 ELSE Ts[i-1] - Ts[i]]
      cp == [i \in 1..n |-> IF i = 1 THEN 0 ELSE cps[i-1]]
      RECURSIVE Below(_)
      Below(i) == IF i = n THEN 0 ELSE Below(i + 1) + cp[i+1] * dT[i+1]     \* heat content below row i
  IN  [i \in 1..n |->
        [T |-> Ts[i], dT |-> dT[i], cp |-> cp[i], dh |-> cp[i] * dT[i], H |-> R(Below(i)),
         G |-> CASE gmode = 0 -> NaN
                 [] gmode = 1 -> R(IF i % 2 = 1 THEN 7 ELSE 2)          \* zig-zag: interpolation matters
                 [] OTHER     -> R(Below(i) + 3 * i),
         X |-> IF gmode = 2 THEN XNaN ELSE cp[i] + 1 ]]

Requests(maxlen) == UNION { [1..k -> ReqTemps] : k \in 1..maxlen }

Init ==
  /\ \E Ts \in TempSeqs : \E cps \in [1..(Len(Ts) - 1) -> CPVals] : \E g \in 0..2 :
        tab = MkTable(Ts, cps, g)
  /\ hist = <<>>
  /\ last = [old |-> <<>>, req |-> <<>>, n |-> 0]

Call(req) ==
  /\ Len(hist) < MaxCalls
  /\ LET res == Insert(tab, req) IN
     /\ tab' = res.tab
     /\ last' = [old |-> tab, req |-> req, n |-> res.n]
     /\ hist' = Append(hist, req)

Next == \/ \E req \in Requests(MaxReq)  : Len(hist) = 0 /\ Call(req)
        \/ \E req \in Requests(MaxReq2) : Len(hist) > 0 /\ Call(req)

Spec == Init /\ [][Next]_vars

(* state invariant: the step that produced this state satisfied every clause *)
C08_Call ==
  Len(hist) > 0 => CallOK(last.old, last.req, [tab |-> tab, n |-> last.n])

C08_Desc == StrictlyDescending(tab)

(* histories: the curves after any sequence of calls are still the curves of the initial table; *)
(* follows from per-step SameCurves by transitivity of interpolation -- checked, not assumed,   *)
(* through the export: the harness compares the final table with the initial curve.            *)

EmitCase ==
  (DoEmit /\ Len(hist) > 0) =>
     PrintT(<<"CASE", ToJson([old |-> last.old, req |-> last.req, n |-> last.n, new |-> tab, depth |-> Len(hist)])>>)
=============================================================================
