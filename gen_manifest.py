#!/venv/bin/python
"""Regenerate MANIFEST.json from the registry below (kept in one place so it is always valid)."""
import json

CHECKS = {
 "C01": ("model_checking", "7/C01",
   "TLC exhaustively checks the implementation-shaped cascade machine of spec/Cascade.tla against the definitional max-deficit targets on every multiset of <=3 lattice streams (x utility ladders x zone assignments); every enumerated case is then replayed into the real cascade (component level, three affine embeddings incl. a float-noise one) and through pinch_analysis_service (every zone record), and judged against the values TLC computed.",
   "Bounded lattice inputs (small-scope hypothesis); temperatures closer than 1e-4 K are not modelled; TLC's evaluation of the definitional operators is the oracle.",
   "TLA+ spec + TLC exhaustive model check; TLC-exported cases replayed into the implementation"),
 "C05": ("model_checking", "7/C05",
   "As C01: the same TLC enumeration carries the exact hot/cold heat-content curves on both temperature scales; the real tables (including rows inserted later by constant-enthalpy projection) are compared row by row with those curves, with the span, net-curve, same-target and row-wise dT/CP/dH clauses.",
   "As C01; the definitional piecewise-linear curves exported by TLC are evaluated at inserted (off-lattice) rows by linear interpolation in the harness.",
   "TLA+ spec + TLC exhaustive model check; TLC-exported cases replayed into the implementation"),
 "C06": ("model_checking", "7/C06",
   "As C01: TLC computes the exact zero set of the residual at every breakpoint and the reading of the statement fixed in DESIGN 7/C06 (threshold runs collapse to their process-side end); the implementation-shaped first/last-zero row logic is model-checked against it and the real pinch temperatures (table level and serialised record) are compared on every enumerated case.",
   "As C01; the reading of 'threshold' and 'absent' is the one written down in DESIGN 7/C06.",
   "TLA+ spec + TLC exhaustive model check; TLC-exported cases replayed into the implementation"),
 "C07": ("model_checking", "7/C07",
   "spec/Pockets.tla models the pocket sweep as a multi-step machine (one action per loop iteration, the code's own indices and loop counter, row insertion inside the step); TLC runs it on every GCC shape of <=6 rows (quick) / 7-8 rows (thorough) and checks equality AS FUNCTIONS with the greatest monotone minorant, the end values and the load-profile clauses; every shape is replayed through get_GCC_without_pockets and the profile split under two/three embeddings.",
   "Shapes on an integer lattice; bounded rows/levels (the smallest known counterexamples need 5 and 7 rows, both inside the bounds).",
   "TLA+ spec + TLC exhaustive model check; TLC-exported cases replayed into the implementation"),
 "C08": ("model_checking", "7/C08",
   "spec/ProblemTable.tla transcribes insert_temperature_interval helper by helper; TLC explores every small table x every request sequence (unsorted, duplicates, existing rows, above/below/inside, several per interval) x histories of calls and checks same-curves, ordering, dT/dH rules, return count and idempotence; every explored call is replayed on a real ProblemTable (all three CP/dH pairs, populated and NaN curve columns) under three embeddings incl. near-duplicate requests.",
   "One representative column per column class; tables start consistent with first-row CP 0 (as every pipeline table).",
   "TLA+ spec + TLC exhaustive model check; TLC-exported cases replayed into the implementation"),
 "C03": ("model_checking", "7/C03",
   "spec/Utility.tla runs multi-utility assignment as one action per utility (the code's order, masks, slices and break) over every multiset of <=3 lattice streams x hot/cold ladder options (levels inside pockets, at and beyond the pinch, isothermal and gliding); TLC checks that duties are non-negative and sum to the exact Qh/Qc; every case is replayed through compute_direct_integration_targets on a real Zone and the reported duties judged against TLC's targets.",
   "Ladders always contain an outermost hot and cold level (the role of the default utilities); the default-utility decision itself is exercised at service level by C02/C14 replays.",
   "TLA+ spec + TLC exhaustive model check; TLC-exported cases replayed into the implementation"),
 "C04": ("model_checking", "7/C04",
   "Same machine as C03; TLC checks feasibility 0 <= utility GCC <= pocket-free GCC at every breakpoint of either curve (sufficient for piecewise-linear curves; NP's extra breakpoints are concave) and, for isothermal ladders with distinct levels, equality with the closed-form lowest-grade-first optimum, which TLC itself proves maximal by brute force in the tiny config. Replay judges the unrounded H_net_ut/H_net_np columns (hook snapshot) and the utility GCC rebuilt from the reported duties. One known finding (KF-C04-glide) is carved out by an input-class predicate that TLC evaluates per case.",
   "Utilities with zero contribution; isothermal = 0.1 K glide placed so that no lattice breakpoint falls inside it.",
   "TLA+ spec + TLC exhaustive model check; TLC-exported cases replayed into the implementation"),
 "C19": ("model_checking", "7/C19",
   "spec/StreamObject.tla (one action per public setter, _update_attributes transcribed branch by branch incl. the rule that rewrites the target of an isothermal stream) is model-checked over every constructor argument combination x every sequence of 3 (quick) / 4 setter calls, and every behaviour is replayed on a real Stream with the four stated relations evaluated after each call; spec/StreamColl.tla (insertion-ordered dictionary with string keys, clash renaming, stable sorted view, member setters the collection is not told about) is model-checked exhaustively and TLC-simulated behaviours are replayed on real StreamCollection objects with membership/len/iteration-order/concatenation checked after every call.",
   "Film coefficient > 0; member names a, a, a_1, a_2; one known finding (KF-C19-dead) carved out by the predicate StreamObject!Dead, whose non-emptiness TLC demonstrates in the thorough tier.",
   "TLA+ spec + TLC exhaustive model check; TLC-generated behaviours replayed on the real objects"),
 "C02": ("model_checking", "7/C02",
   "TLC (spec/SiteGen.tla) enumerates every small site problem (<=2-3 lattice streams x zone assignment x request ladder incl. generation/use levels and gliding utilities); the real service is run on each and the recorded records are validated by TLC against spec/TraceSite.tla, which recomputes the stream duties per zone and checks Qh-Qc, Qr, non-negativity and the hot/cold utility difference on every record kind (DI, total-process, total-site). Site-level algebra of the utility allocation is model-checked in spec/Utility.tla (C03).",
   "Reported floats are transported to TLC in fixed point (1e-4 lattice units) and compared within 12 units; quick tier samples ~1200 problems deterministically by VERIF_SEED.",
   "TLA+ generator spec + real executions judged by a TLA+ trace specification checked with TLC"),
 "C09": ("model_checking", "7/C09",
   "Same traces as C02: TLC checks on every site that the total-process record is the sum of its zones' direct-integration records value by value and utility by utility, that DI(site) <= total-site <= sum of zones for Qh and Qc, and the recovery identity; zone targets are additionally compared with the definitional cascade of each zone's streams.",
   "As C02; sites of 2 zones (quick) / 3 zones (thorough), nested labels exercised through the 'nest' description.",
   "TLA+ generator spec + real executions judged by a TLA+ trace specification checked with TLC"),
 "C12": ("model_checking", "7/C12",
   "spec/SiteGen.tla defines the transformation group (stream permutation with value-with-unit numbers, split at a temperature, parallel split, zone swap, nesting, translation onto a frame in which a level is exactly 0.0, duty scaling, mirroring); every generated problem is run in every description and spec/TraceSite.tla checks record-by-record equality of targets, pinches and per-utility duties after transport (mirror: hot<->cold, T -> M - T).",
   "Mirroring only for default-utility ladders (an isothermal utility's 0.1 K glide is placed asymmetrically by construction); graph data are compared under C13.",
   "TLA+ generator spec + real executions judged by a TLA+ trace specification checked with TLC"),
 "C14": ("model_checking", "7/C14",
   "Same traces: any exception, non-finite number, missing/duplicate direct-integration record (every site/process zone of the prepared tree, incl. three-level nesting), reported temperature outside the input envelope, JSON round-trip failure or difference between repeated calls is a violation; numbers as floats and as value-with-unit objects.",
   "Analysis options other than DT_CONT / DT_PHASE_CHANGE are exercised by the options sweep of the thorough tier only; heat-pump targeting (stochastic optimiser) is not modelled.",
   "TLA+ generator spec + real executions judged by a TLA+ trace specification checked with TLC"),
 "C11": ("model_checking", "7/C11",
   "spec/ServiceHistory.tla models the library's process-wide state (graph accumulator, caller-owned reusable model, wrapper cache) under every history of service calls (dict, value-with-unit dict, fresh model, reused model) and wrapper operations; TLC checks every result equals Fresh(p), inputs stay pristine, no module state survives. All call histories of length 3 (12^3) and all stale-cache-shaped wrapper histories are replayed in long-lived interpreters: result digest vs a fresh-process digest, deep snapshot of the input, digests of all earlier results, and a snapshot of every mutable object reachable from the library's module namespaces (module containers, mutable default arguments, class attributes) before/after every call.",
   "Three fixed problems; digests cover records, pinches, duties, graph keys and graph point counts (not every graph coordinate - C13 covers those).",
   "TLA+ spec + TLC exhaustive model check; TLC-generated histories replayed into the implementation"),
 "C16": ("model_checking", "7/C16",
   "Same ServiceHistory spec: every wrapper history (load from model / JSON / value-with-unit JSON / CSV directory / CSV pair / workbook, target, export; never two loads in a row) of length 4 is replayed with files materialised in a scratch directory; the wrapper's result must equal the fresh-process digest of the loaded problem for every channel, a repeated target must return the cached object, and exported workbooks are opened and their sheet names checked. spec/SheetNames.tla transcribes the sheet-name allocator over character sequences (31-character limit, forbidden characters, blank names, 13 colliding allocations) and every behaviour is replayed on the real _unique_sheet_name.",
   "Problems use default options (the CSV channel cannot carry options); root-zone name differences between channels (file stem) are normalised.",
   "TLA+ spec + TLC exhaustive model check; TLC-generated histories replayed into the implementation"),
 "C20": ("model_checking", "7/C20",
   "spec/HeatExchanger.tla: (1) the arrangement dispatch of HX_Eff/HX_NTU as a machine, model-checked for both label forms of all 8 arrangements; (2) trace validation: the real functions are evaluated on the grid 8 arrangements x 2 label forms x NTU=k/4 x c in {0,..,1} x 1..4 passes and TLC judges label-form independence, range, monotonicity, the c=0 limit and the counter/parallel-flow closed forms against an exp table it verifies itself (semigroup law, Taylor bracket), the counter-flow bound and both round trips; LMTD bounds, symmetry, refusal and the root-free Carlson/Polya bracket.",
   "Fixed point 1e-6 (values) / 1e-4 (exp table); both-mixed cross-flow judged on its rising branch only (its effectiveness has a maximum in NTU); condensing/evaporating only at c = 0; known finding KF-C20-crfuu.",
   "TLA+ spec + TLC model check of the dispatch; real executions judged by the TLA+ trace specification with TLC"),
 "C10": ("model_checking", "7/C10",
   "spec/ZoneTree.tla transcribes the synthesis of the zone tree from stream labels (pre-pass, per-path counters, clash avoidance of generated unit-operation names), label rewriting, stream-to-zone matching and the bottom-up aggregation that replaces the collections of every zone with children; TLC checks conservation (exactly one leaf, once in each ancestor, nowhere else) for every sequence of <=3 streams over a label universe built from suffix/prefix pairs, the root name and generated names, and for resolution against a user tree; every configuration is replayed through prepare_problem and the projected tree judged by the same predicates (streams identified by unique duties), plus independence of per-zone utility copies.",
   "Label universe and user tree fixed in the spec; two input classes with a user tree are known findings carved out by TLA+ predicates; whitespace-padded labels are exercised when VERIF_SEED is odd.",
   "TLA+ spec + TLC exhaustive model check; TLC-exported cases replayed into the implementation"),
 "C17": ("model_checking", "7/C17",
   "spec/CurveSimplify.tla: (clean) end trimming + collinear-point removal transcribed and model-checked against 'same function of temperature over the non-flat extent' on every polyline of <=5 points with arbitrary enthalpy shape (plateaus, steps, spikes, flat ends); (rdp) the Ramer-Douglas-Peucker loop with its explicit stack, one action per popped interval, exact squared distances, against end-point / order / deviation predicates on every monotone lattice polyline x tolerances; every case replayed on the real functions. (trace) get_piecewise_data_points on 50-500 point hot and cold profiles; TLC judges each original point against its spanning segment in integers (integer square root), and an exact float judgement of the same clauses backs up the integer resolution.",
   "Two known findings on the one-sided clause (unrefined results with <=10 breakpoints; optimiser slack up to eps/5), each carved out by a predicate over the event; larger excursions are violations.",
   "TLA+ spec + TLC exhaustive model check with replay; real executions judged by the TLA+ trace specification with TLC"),
}
NOT_YET = {}

def main():
    props = [json.loads(l) for l in open("/verif/properties.jsonl")]
    checks = []
    for pid, (level, ref, text, note, tech) in CHECKS.items():
        checks.append({
            "property_id": pid,
            "quick_cmd": f"./check {pid} --tier quick",
            "thorough_cmd": f"./check {pid} --tier thorough",
            "evidence_file": f"/verif/evidence/{pid}.json",
            "replay_cmd_template": f"./check {pid} --replay {{path}}",
            "engine": "tlc",
            "level_claimed": {"category": level, "text": text, "design_ref": ref},
            "level_note": note,
            "technique": tech,
        })
    na = [{"property_id": p["id"], "reason": NOT_YET.get(p["id"], "check not built yet in this round; to be decided by the TLA+ specification (see DESIGN.md 7)")}
          for p in props if p["id"] not in CHECKS]
    m = {
        "version": 1,
        "setup_cmd": "true",
        "hooks": {
            "guard": "OPENPINCH_VERIF",
            "enable": "checks import OpenPinch from /repo's working tree with OPENPINCH_VERIF=1 (trace sink OPENPINCH_VERIF_TRACE=<file>)",
            "baseline_off_cmd": "cd /repo && env -u OPENPINCH_VERIF /venv/bin/python -m pytest -ra -q -p no:cacheprovider --timeout=900 --continue-on-collection-errors",
            "source_commits": ["d431437"],
            "add_only": True,
        },
        "engines": [{"name": "tlc", "path": "/verif/spec", "serves_properties": sorted(CHECKS),
                     "kind_free_text": "TLA+ specifications checked with TLC 1.8; cases/traces bound to the implementation by harness/"}],
        "checks": checks,
        "not_applicable": na,
        "notes": "See DESIGN.md. exit 0 = held, exit 1 + VIOLATION line = violated, exit 2 = machinery failure.",
    }
    json.dump(m, open("/verif/MANIFEST.json", "w"), indent=1)

main()
