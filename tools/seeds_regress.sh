#!/bin/sh
# tools/seeds_regress.sh [ids...] : apply every kept seed (scratch worktree) and run its property's quick check; one line per seed.
# A seed whose patch no longer applies to /repo's HEAD is reported as such (see seeded/<id>/OBSOLETE.md).
cd /verif
ids="${*:-$(ls seeded | sort)}"
for id in $ids; do
  prop=$(echo "$id" | cut -c1-3)
  if [ -f "seeded/$id/OBSOLETE.md" ]; then echo "$id obsolete"; continue; fi
  out=$(tools/try_seed.sh "seeded/$id/patch.diff" "$prop" quick 2>&1)
  rc=$(echo "$out" | grep -o 'exit=[0-9]*' | tail -1)
  nv=$(echo "$out" | grep -c '^VIOLATION')
  clause=$(echo "$out" | grep '^VIOLATION' | head -1 | sed 's/.*clause=\([^ ]*\).*/\1/')
  echo "$id $prop $rc violations_shown=$nv first=$clause"
done
