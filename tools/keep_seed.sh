#!/bin/sh
# tools/keep_seed.sh <worktree> <seed-id> : copy a confirmed seeded change into /verif/seeded/<seed-id>/
wt="$1"; id="$2"; d=/verif/seeded/$id
mkdir -p "$d" && cp "$wt/_seed/patch.diff" "$wt/_seed/demo.py" "$d/" && cp "$wt/_seed/meta.json" "$d/meta.agent.json"
sed -i "s#$wt#/repo#g" "$d/demo.py"
echo "kept $id"
