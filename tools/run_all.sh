#!/bin/sh
# tools/run_all.sh [tier] [ids...] : run the checks one after the other in /verif (writes evidence/), full output in /verif/logs/<tier>/<id>.log
tier="${1:-quick}"; shift 2>/dev/null
ids="${*:-C01 C02 C03 C04 C05 C06 C07 C08 C09 C10 C11 C12 C13 C14 C15 C16 C17 C18 C19 C20}"
mkdir -p /verif/logs/$tier
for p in $ids; do
  s=$(date +%s)
  ./check $p --tier $tier > /verif/logs/$tier/$p.log 2>&1; rc=$?
  e=$(date +%s)
  echo "$p exit=$rc wall=$((e-s))s $(grep -c '^VIOLATION' /verif/logs/$tier/$p.log) violation line(s) | $(tail -1 /verif/logs/$tier/$p.log | cut -c1-160)"
done
