#!/bin/sh
# tools/confirm_seed.sh <seed-id>: confirm in a scratch worktree that the seeded change (a) applies, (b) passes the
# existing suite (only the 2 baseline export failures), (c) makes demo.py fail while the clean tree passes it.
id="$1"; d=/verif/seeded/$id; wt=/tmp/confirm_$id
git -C /repo worktree add -q --detach "$wt" HEAD || exit 2
cd "$wt"
sed "s#/repo#$wt#g" "$d/demo.py" > "$wt/_demo.py"
/venv/bin/python _demo.py >/dev/null 2>&1; clean=$?
git apply "$d/patch.diff" || { echo "$id: patch does not apply"; git -C /repo worktree remove --force "$wt"; exit 2; }
/venv/bin/python _demo.py >/dev/null 2>&1; patched=$?
PYTHONDONTWRITEBYTECODE=1 /venv/bin/python -m pytest -q -p no:cacheprovider 2>&1 | grep -E "[0-9]+ passed" | tail -1 | tr -d "=" > "$wt/_pytest.txt"
suite=$(cat "$wt/_pytest.txt")
head=$(git -C /repo rev-parse --short HEAD)
cat > "$d/confirm.json" <<EOT
{"seed": "$id", "repo_head": "$head", "demo_exit_clean": $clean, "demo_exit_patched": $patched, "suite_with_patch": "$suite"}
EOT
cd / && git -C /repo worktree remove --force "$wt"
cat "$d/confirm.json"
