#!/bin/sh
# tools/try_seed.sh <patch.diff> <PROP> [tier]
# Apply a seeded change to a scratch worktree of /repo's HEAD (never to /repo itself), run the check against it
# (OPENPINCH_REPO), write evidence/replays to a scratch directory (VERIF_OUT), remove both.
set -u
patch="$(realpath "$1")"; prop="$2"; tier="${3:-quick}"
wt=$(mktemp -d /tmp/seedwt.XXXXXX); out=$(mktemp -d /tmp/seedout.XXXXXX)
git -C /repo worktree add --detach "$wt" HEAD >/dev/null 2>&1 || { echo "worktree failed"; exit 2; }
git -C /repo diff HEAD | git -C "$wt" apply 2>/dev/null     # carry uncommitted /repo changes, if any
git -C "$wt" apply "$patch" || { echo "patch does not apply"; git -C /repo worktree remove --force "$wt"; exit 2; }
cd /verif && OPENPINCH_REPO="$wt" VERIF_OUT="$out" ./check "$prop" --tier "$tier" > "$out/log" 2>&1; rc=$?
grep -E "VIOLATION|KNOWN|MACHINERY|^C[0-9]+ " "$out/log" | sed "s#$out#<scratch>#g" | cut -c1-300 | head -8
echo "exit=$rc"
git -C /repo worktree remove --force "$wt"; rm -rf "$out" "$wt"
