#!/bin/sh
# tools/try_seed.sh <patch.diff> <PROP> [tier]  -- apply a seeded change to /repo, run the check, undo.
set -u
patch="$1"; prop="$2"; tier="${3:-quick}"
cd /repo || exit 2
git diff --quiet || { echo "/repo has local changes"; exit 2; }
git apply "$patch" || { echo "patch does not apply"; exit 2; }
cd /verif && ./check "$prop" --tier "$tier" > /tmp/try_seed.out 2>&1; rc=$?
git -C /repo checkout -- .
grep -E "VIOLATION|KNOWN|MACHINERY|^C[0-9]+ " /tmp/try_seed.out | cut -c1-400 | head -8
echo "exit=$rc"
