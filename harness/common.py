"""Shared plumbing: repo import, embeddings, verdict accumulator, evidence, known findings."""
from __future__ import annotations

import hashlib
import json
import math
import os
import sys
import time
from dataclasses import dataclass, field
from pathlib import Path

VERIF = Path(__file__).resolve().parents[1]
REPO = Path(os.environ.get("OPENPINCH_REPO", "/repo"))
_OUT = Path(os.environ["VERIF_OUT"]) if os.environ.get("VERIF_OUT") else VERIF      # seed trials write elsewhere
EVID = _OUT / "evidence"
REPLAYS = _OUT / "replays"
GUARD = "OPENPINCH_VERIF"


def repo_import():
    """Import OpenPinch from /repo's current working tree, hooks enabled, no bytecode written."""
    os.environ[GUARD] = "1"
    os.environ.setdefault("PYTHONDONTWRITEBYTECODE", "1")
    sys.dont_write_bytecode = True
    if str(REPO) not in sys.path:
        sys.path.insert(0, str(REPO))


def seed() -> int:
    try:
        return int(os.environ.get("VERIF_SEED", "0"))
    except ValueError:
        return 0


# ---------------------------------------------------------------------------
# Embeddings of the integer lattice into real units (DESIGN section 3)

@dataclass(frozen=True)
class Emb:
    name: str
    a: float      # T_real = a + b * T
    b: float
    c: float      # Q_real = c * Q   (CP_real = c / b * CP)
    native_latent: bool = False   # b == 0.01: a 1-unit cold stream may be passed as supply == target

    def T(self, t):
        return self.a + self.b * t

    def dT(self, d):
        return self.b * d

    def Q(self, q):
        return self.c * q

    def untT(self, x):
        return (x - self.a) / self.b

    def untQ(self, x):
        return x / self.c


E0 = Emb("E0-native", 100.0, 0.01, 1.0, True)
E1 = Emb("E1-coarse", 0.0, 0.5, 10.0)     # a = 0: lattice 0 maps to exactly 0.0 (falsy-zero bugs)
E2 = Emb("E2-noisy", 0.1 + 0.2, 0.07, 1.0 / 3.0)
E3 = Emb("E3-twin", -40.0, 0.25, 7.0)
# native lattice at kiln temperatures (or data in kelvin): the code's ABSOLUTE windows (1e-5 K activity margin, 0.01 K latent
# glide) must not turn into relative ones -- at 1500 a relative 1e-5 is wider than a latent stream (seeded change C01g)
E4 = Emb("E4-hot-native", 1500.0, 0.01, 1.0, True)
EMBS = {e.name: e for e in (E0, E1, E2, E3, E4)}


def close(x, y, scale=1.0, rel=1e-6):
    if x is None or y is None:
        return x is None and y is None
    if isinstance(x, float) and (math.isnan(x) or math.isinf(x)):
        return False
    return abs(x - y) <= rel * max(1.0, abs(scale))


# ---------------------------------------------------------------------------
# Known findings

def load_findings():
    p = VERIF / "known_findings.json"
    if not p.exists():
        return {"findings": [], "fixed": []}
    return json.loads(p.read_text())


# ---------------------------------------------------------------------------
# Verdict accumulator

@dataclass
class Violation:
    clause: str
    case: dict
    detail: dict
    leg: str = "R"


class Run:
    def __init__(self, prop: str, tier: str):
        self.prop, self.tier = prop, tier
        self.t0 = time.time()
        self.violations: list[Violation] = []
        self.known_hits: dict[str, int] = {}
        self.drift: list[str] = []
        self.cov: dict = {"evaluations": 0, "distinct_nontrivial": 0, "states": 0, "transitions": 0,
                          "traces_validated_against_impl": 0, "samples": [], "exhaustive": False}
        self.assumptions: list[str] = []
        self.notes: dict = {}
        self.findings = [f for f in load_findings().get("findings", []) if f["property"] == prop]
        self._matchers = {}
        self.machinery_errors: list[str] = []

    # --- known-finding classification --------------------------------------
    def register_matcher(self, name, fn):
        self._matchers[name] = fn

    def classify(self, v: Violation):
        for f in self.findings:
            if f.get("clause") and not v.clause.startswith(f["clause"]):
                continue
            m = self._matchers.get(f.get("matcher", ""))
            try:
                if m is not None and m(v, f):
                    return f
            except Exception:
                continue
        return None

    def violation(self, clause, case, detail, leg="R"):
        v = Violation(clause, case, detail, leg)
        f = self.classify(v)
        if f is not None:
            self.known_hits[f["id"]] = self.known_hits.get(f["id"], 0) + 1
            return
        self.violations.append(v)

    def add_tlc(self, res, label=""):
        self.cov["states"] += res.distinct
        self.cov["transitions"] += res.states_generated
        self.notes.setdefault("tlc_runs", []).append(
            {"label": label, "cmd": res.cmd, "distinct_states": res.distinct, "states_generated": res.states_generated,
             "depth": res.depth, "wall_s": round(res.wall_s, 1), "violated": res.violated,
             "coverage": res.coverage or None})

    # --- finish -----------------------------------------------------------
    def finish(self) -> int:
        wall = time.time() - self.t0
        EVID.mkdir(parents=True, exist_ok=True)
        REPLAYS.mkdir(parents=True, exist_ok=True)
        out_lines = []
        seen = set()
        for v in self.violations:
            blob = json.dumps({"property": self.prop, "clause": v.clause, "leg": v.leg, "case": v.case, "detail": v.detail},
                              sort_keys=True, default=str)
            h = hashlib.sha1(blob.encode()).hexdigest()[:12]
            path = REPLAYS / f"{self.prop}-{h}.json"
            if len(seen) < 25 and h not in seen:
                path.write_text(blob)
                out_lines.append(f"VIOLATION property={self.prop} replay={path} clause={v.clause} leg={v.leg}")
            seen.add(h)
        for f in self.findings:
            n = self.known_hits.get(f["id"], 0)
            if n:
                out_lines.append(f"KNOWN-FINDING: property={self.prop} {f['id']}: {f['text']} ({n} case(s) this run)")
        cov = dict(self.cov)
        cov["samples"] = cov["samples"][:6] or [{"note": "no sample recorded"}]
        cov.update({k: v for k, v in self.notes.items()})
        cov["drift_notes"] = self.drift[:20]
        cov["known_finding_hits"] = self.known_hits
        cov["violating_cases"] = len(self.violations)
        ev = {"property_id": self.prop, "tier": self.tier, "seed": seed(), "level": "model_checking",
              "coverage": cov, "assumptions": self.assumptions, "wall_s": round(wall, 2),
              "violations": len(self.violations)}
        (EVID / f"{self.prop}.json").write_text(json.dumps(ev, indent=1, default=str))
        for l in out_lines:
            print(l)
        if self.machinery_errors:
            for m in self.machinery_errors:
                print("MACHINERY-ERROR:", m)
            return 2
        print(f"{self.prop} {self.tier}: states={cov['states']} evaluations={cov['evaluations']} "
              f"replayed/validated={cov['traces_validated_against_impl']} violations={len(self.violations)} "
              f"known={sum(self.known_hits.values())} wall={wall:.1f}s")
        return 1 if self.violations else 0


def sample(items, n, salt=0):
    """Deterministic pseudo-random subset of about n items (order kept).  A fixed stride would alias with the
    period of the enumeration (e.g. 6 ladder options sampled with stride 3 never shows options 1, 2, 4, 5)."""
    import random
    if n >= len(items):
        return list(items)
    rnd = random.Random(seed() * 1000003 + salt)
    idx = sorted(rnd.sample(range(len(items)), n))
    return [items[i] for i in idx]
