"""./check <ID> [--tier quick|thorough] [--replay path]"""
from __future__ import annotations

import argparse
import importlib
import json
import os
import sys
import traceback

from .common import Run
from .tlc import MachineryError

REGISTRY = {
    "C01": "cascade", "C05": "cascade", "C06": "cascade",
    "C08": "table", "C07": "pockets", "C03": "utility", "C04": "utility", "C19": "streams", "C20": "hx", "C15": "area", "C13": "graphs", "C18": "heatpump", "C17": "curves", "C10": "zonetree", "C11": "service_history", "C16": "service_history", "C02": "site", "C09": "site", "C12": "site", "C14": "site",
}


def main(argv=None):
    ap = argparse.ArgumentParser()
    ap.add_argument("prop")
    ap.add_argument("--tier", default=os.environ.get("VERIF_TIER", "quick"), choices=["quick", "thorough"])
    ap.add_argument("--replay", default=None)
    a = ap.parse_args(argv)
    prop = a.prop.upper()
    if prop not in REGISTRY:
        print(f"unknown property {prop}")
        return 2
    mod = importlib.import_module(f"harness.props.{REGISTRY[prop]}")
    run = Run(prop, a.tier)
    try:
        replay_case = json.load(open(a.replay)) if a.replay else None
        mod.check(prop, a.tier, run, replay_case=replay_case)
    except MachineryError as e:
        run.machinery_errors.append(str(e)[:3000])
    except Exception:
        run.machinery_errors.append(traceback.format_exc()[-3000:])
    return run.finish()


if __name__ == "__main__":
    sys.exit(main())
