"""TLC runner: writes a cfg from a dict of constants, runs TLC in a scratch
metadir, parses TLC's own summary, coverage and the exported CASE lines."""
from __future__ import annotations

import json
import os
import re
import shutil
import subprocess
import tempfile
import time
from concurrent.futures import ThreadPoolExecutor
from dataclasses import dataclass, field
from pathlib import Path

VERIF = Path(__file__).resolve().parents[1]
SPEC = VERIF / "spec"
JAR = "/opt/veriftools/tla/tla2tools.jar:/opt/veriftools/tla/CommunityModules-deps.jar"


class MachineryError(RuntimeError):
    """TLC could not run / parse / overflowed: exit 2, never a property verdict."""


@dataclass
class TLCResult:
    ok: bool = False
    states_generated: int = 0
    distinct: int = 0
    depth: int = 0
    violated: str | None = None       # invariant / property name
    error_trace: str = ""
    cases: list = field(default_factory=list)
    lines: list = field(default_factory=list)   # other PrintT payloads
    coverage: dict = field(default_factory=dict)
    wall_s: float = 0.0
    stdout: str = ""
    cmd: str = ""


def tla_value(v) -> str:
    if isinstance(v, bool):
        return "TRUE" if v else "FALSE"
    if isinstance(v, int):
        return str(v)
    if isinstance(v, str):
        return v            # raw TLA+ expression / model value / quoted string supplied by caller
    if isinstance(v, (set, frozenset)):
        return "{" + ", ".join(tla_value(x) for x in sorted(v, key=lambda x: (str(type(x)), x))) + "}"
    if isinstance(v, (list, tuple)):
        return "<<" + ", ".join(tla_value(x) for x in v) + ">>"
    raise TypeError(v)


def write_cfg(path: Path, *, spec="Spec", init=None, next_=None, constants=None, invariants=(),
              properties=(), constraints=(), action_constraints=(), postcondition=None,
              check_deadlock=False, view=None):
    out = []
    if init:
        out += [f"INIT {init}", f"NEXT {next_}"]
    else:
        out.append(f"SPECIFICATION {spec}")
    if constants:
        out.append("CONSTANTS")
        for k, v in constants.items():
            out.append(f"  {k} = {tla_value(v)}")
    for i in invariants:
        out.append(f"INVARIANT {i}")
    for p in properties:
        out.append(f"PROPERTY {p}")
    for c in constraints:
        out.append(f"CONSTRAINT {c}")
    for c in action_constraints:
        out.append(f"ACTION_CONSTRAINT {c}")
    if postcondition:
        out.append(f"POSTCONDITION {postcondition}")
    if view:
        out.append(f"VIEW {view}")
    out.append(f"CHECK_DEADLOCK {'TRUE' if check_deadlock else 'FALSE'}")
    path.write_text("\n".join(out) + "\n")


_CASE_RE = re.compile(r'^<<"([A-Z_]+)", "(.*)">>$')


def _unescape(s: str) -> str:
    # TLC prints strings with \" and \\ escapes
    out, i = [], 0
    while i < len(s):
        c = s[i]
        if c == "\\" and i + 1 < len(s):
            n = s[i + 1]
            out.append({"n": "\n", "t": "\t"}.get(n, n))
            i += 2
        else:
            out.append(c)
            i += 1
    return "".join(out)


def parse_output(text: str, res: TLCResult):
    for line in text.splitlines():
        m = _CASE_RE.match(line.strip())
        if m:
            tag, payload = m.group(1), _unescape(m.group(2))
            try:
                obj = json.loads(payload)
            except json.JSONDecodeError as e:  # pragma: no cover
                raise MachineryError(f"bad JSON from TLC: {payload[:200]}") from e
            if tag == "CASE":
                res.cases.append(obj)
            else:
                res.lines.append((tag, obj))
    m = re.search(r"(\d+) states generated, (\d+) distinct states found", text)
    if m:
        res.states_generated, res.distinct = int(m.group(1)), int(m.group(2))
    m = re.search(r"The depth of the complete state graph search is (\d+)", text)
    if m:
        res.depth = int(m.group(1))
    m = re.search(r"Error: Invariant (\S+) is violated", text)
    if m:
        res.violated = m.group(1)
    m2 = re.search(r"Error: Action property (\S+) is violated", text)
    if m2:
        res.violated = m2.group(1)
    if re.search(r"Error: Temporal properties were violated", text):
        res.violated = res.violated or "temporal"
    if "Error: The postcondition" in text or "Error: Evaluating postcondition" in text or re.search(r"Error:.*[Pp]ostcondition", text):
        res.violated = res.violated or "postcondition"
    if res.violated:
        i = text.find("Error:")
        res.error_trace = text[i:i + 6000]
    # coverage: <Action line ...>: distinct:generated
    for m in re.finditer(r"<(\w+) line \d+, col \d+ to line \d+, col \d+ of module (\w+)>: (\d+):(\d+)", text):
        res.coverage[m.group(1)] = res.coverage.get(m.group(1), 0) + int(m.group(4))
    res.ok = ("Model checking completed. No error has been found." in text) or \
             ("Finished in" in text and res.violated is None and "Error:" not in text)
    return res


def run_tlc(module: str, cfg: Path | str, *, workers: int | str = 16, coverage=False, simulate: str | None = None,
            depth: int | None = None, env: dict | None = None, timeout: int = 3600, xmx: str = "4g",
            extra: list[str] | None = None, deque=False, cwd: Path = SPEC, seed: int | None = None) -> TLCResult:
    meta = tempfile.mkdtemp(prefix="tlcmeta_")
    try:
        gc = ["-XX:+UseSerialGC"] if str(workers) == "1" else ["-XX:+UseParallelGC", "-XX:ParallelGCThreads=4"]
        cmd = ["java", *gc, f"-Xmx{xmx}"] + os.environ.get("VERIF_JVM_OPTS", "").split()
        if deque:
            cmd.append("-Dtlc2.tool.queue.IStateQueue=StateDeque")
        cmd += ["-cp", JAR, "tlc2.TLC", "-workers", str(workers), "-metadir", meta, "-noGenerateSpecTE",
                "-config", str(cfg)]
        if coverage:
            cmd += ["-coverage", "1"]
        if simulate:
            cmd += ["-simulate", simulate]
        if depth:
            cmd += ["-depth", str(depth)]
        if seed is not None:
            cmd += ["-seed", str(seed)]
        if extra:
            cmd += extra
        cmd.append(module)
        e = dict(os.environ)
        if env:
            e.update({k: str(v) for k, v in env.items()})
        t0 = time.time()
        try:
            p = subprocess.run(cmd, cwd=str(cwd), env=e, capture_output=True, text=True, timeout=timeout)
        except subprocess.TimeoutExpired as ex:
            raise MachineryError(f"TLC timeout after {timeout}s: {' '.join(cmd)}") from ex
        res = TLCResult(wall_s=time.time() - t0, stdout=p.stdout + p.stderr, cmd=" ".join(cmd))
        parse_output(p.stdout, res)
        txt = res.stdout
        if res.violated is None and not res.ok:
            raise MachineryError("TLC failed:\n" + txt[-4000:])
        if "Overflow when computing" in txt:
            raise MachineryError("TLC integer overflow:\n" + txt[-2000:])
        return res
    finally:
        shutil.rmtree(meta, ignore_errors=True)


def run_sharded(module: str, cfg_writer, nshards: int, *, jvms: int = 16, **kw) -> TLCResult:
    """Run nshards TLC instances (workers=1 each, ordered CASE output) in parallel and merge.
    cfg_writer(shard, nshards, path) writes the cfg for one shard."""
    tmp = Path(tempfile.mkdtemp(prefix="tlccfg_"))
    try:
        def one(k):
            cfg = tmp / f"shard{k}.cfg"
            cfg_writer(k, nshards, cfg)
            return run_tlc(module, cfg, workers=1, **kw)
        with ThreadPoolExecutor(max_workers=jvms) as ex:
            parts = list(ex.map(one, range(nshards)))
    finally:
        shutil.rmtree(tmp, ignore_errors=True)
    tot = TLCResult(ok=all(p.ok for p in parts))
    for p in parts:
        tot.states_generated += p.states_generated
        tot.distinct += p.distinct
        tot.depth = max(tot.depth, p.depth)
        tot.cases += p.cases
        tot.lines += p.lines
        tot.wall_s = max(tot.wall_s, p.wall_s)
        if p.violated and not tot.violated:
            tot.violated, tot.error_trace = p.violated, p.error_trace
        for k, v in p.coverage.items():
            tot.coverage[k] = tot.coverage.get(k, 0) + v
    tot.cmd = parts[0].cmd + f"   (x{nshards} shards)"
    return tot
