"""C17: curve simplification stays within its tolerance.

Leg M  spec/CurveSimplify.tla: clean_composite_curve on every lattice polyline of <= 5 points (any enthalpy shape:
       plateaus, vertical steps, spikes, flat ends) and _rdp (explicit stack, squared distances) on every monotone
       lattice polyline of <= 5 points x tolerances
Leg R  every case replayed on the real functions under scalings; results judged by the property predicates
Leg T  get_piecewise_data_points on 50-500 point hot and cold profiles (power laws, two-phase plateaus, noisy);
       TLC judges deviation / one-sidedness / ends / order per original point in integers (integer square root)
"""
from __future__ import annotations

import json
import math
import random
import shutil
import tempfile
from pathlib import Path

from ..common import Run, repo_import, seed
from ..tlc import run_tlc, write_cfg, MachineryError

BASE = dict(DropSpike=False, RdpNoSplit=False)
CFGS = {"clean": dict(Mode='"clean"', MaxPts=5, MaxCoord=5, Eps2Set={1}),
        "rdp": dict(Mode='"rdp"', MaxPts=5, MaxCoord=3, Eps2Set={1, 2, 4}),
        "rdp_deep": dict(Mode='"rdp"', MaxPts=6, MaxCoord=3, Eps2Set={1, 2}),
        "clean_deep": dict(Mode='"clean"', MaxPts=6, MaxCoord=6, Eps2Set={1})}
INVS = {"clean": ["C17_CleanSameFunction", "C17_CleanKeepsEnds", "EmitCase"],
        "rdp": ["C17_RdpEnds", "C17_RdpOrder", "C17_RdpDeviation", "EmitCase"]}


def _tlc(consts, invs, post=None, env=None, workers=16):
    tmp = Path(tempfile.mkdtemp(prefix="tlccfg_"))
    try:
        cfg = tmp / "mc.cfg"
        write_cfg(cfg, spec="Spec", constants=consts, invariants=invs, postcondition=post)
        return run_tlc("CurveSimplify.tla", cfg, workers=workers, xmx="8g", env=env)
    finally:
        shutil.rmtree(tmp, ignore_errors=True)


def judge_clean(curve, res_y, res_x, a, b, c):
    """curve: lattice [[x, y]]; real result arrays (y = T, x = H).  Same function of T over the non-flat extent."""
    import numpy as np
    xs = [p[0] for p in curve]
    n = len(curve)
    nonflat = [i for i in range(n) if not all(xs[j] == xs[0] for j in range(i + 1)) and not all(xs[j] == xs[-1] for j in range(i, n))]
    out = []
    if not nonflat:
        return out
    lo, hi = max(min(nonflat) - 1, 0), min(max(nonflat) + 1, n - 1)
    ry, rx = np.asarray(res_y, float), np.asarray(res_x, float)
    if len(ry) < 2:
        return [("C17.clean_same_function", dict(reason="fewer than two points returned", result=list(map(float, ry))))]
    if not np.all(np.diff(ry) < 0):
        out.append(("C17.clean_original_order", dict(T=ry.tolist())))
        return out
    for i in range(lo, hi + 1):
        T, H = a + b * curve[i][1], c * curve[i][0]
        if T > ry[0] + 1e-9 or T < ry[-1] - 1e-9:
            out.append(("C17.clean_keeps_nonflat_extent", dict(T=T, kept=[float(ry[0]), float(ry[-1])])))
            break
        got = float(np.interp(T, ry[::-1], rx[::-1]))
        if abs(got - H) > 1e-6 * max(1.0, abs(c)):
            out.append(("C17.clean_same_function", dict(T=T, got=got, expected=H)))
            break
    return out


def judge_clean_T(pts, res_y, res_x, lo, hi, allow=2e-6):
    """Near-collinear inputs (a removable point moved off its chord by a few 1e-6 K): the kept polyline must stay within the
    tolerance of every original point, measured as the code measures it -- in temperature at the same enthalpy.  pts = [(T, H)].
    The minimum over all kept segments spanning that enthalpy is taken (lenient where the enthalpy is not monotone)."""
    import numpy as np
    ry, rx = np.asarray(res_y, float), np.asarray(res_x, float)
    if len(ry) < 2:
        return [("C17.clean_same_function", dict(reason="fewer than two points returned"))]
    for i in range(lo, hi + 1):
        T, H = pts[i]
        best = None
        for k in range(len(rx) - 1):
            x1, x2, y1, y2 = rx[k], rx[k + 1], ry[k], ry[k + 1]
            if min(x1, x2) - 1e-12 <= H <= max(x1, x2) + 1e-12:
                if x1 == x2:
                    d = 0.0 if min(y1, y2) <= T <= max(y1, y2) else min(abs(T - y1), abs(T - y2))
                else:
                    d = abs(T - (y1 + (y2 - y1) * (H - x1) / (x2 - x1)))
                best = d if best is None else min(best, d)
        if best is None or best > allow:
            return [("C17.clean_same_function", dict(T=T, H=H, deviation_in_T=best, kept=[[float(u), float(v)] for u, v in zip(rx, ry)]))]
    return []


def point_seg_dist(p, a, b):
    ax, ay = a; bx, by = b; px, py = p
    dx, dy = bx - ax, by - ay
    L2 = dx * dx + dy * dy
    if L2 == 0:
        return math.hypot(px - ax, py - ay)
    t = max(0.0, min(1.0, ((px - ax) * dx + (py - ay) * dy) / L2))
    return math.hypot(px - ax - t * dx, py - ay - t * dy)


def judge_rdp(orig, res, eps):
    out = []
    import numpy as np
    orig = np.asarray(orig, float); res = np.asarray(res, float)
    if len(res) < 2 or not (np.allclose(res[0], orig[0]) and np.allclose(res[-1], orig[-1])):
        return [("C17.linearisation_keeps_end_points", dict(first=res[:1].tolist(), last=res[-1:].tolist()))]
    # order: result must be a subsequence of the original
    j = 0
    for p in orig:
        if j < len(res) and np.allclose(p, res[j]):
            j += 1
    if j != len(res):
        out.append(("C17.linearisation_original_order", dict(result=res.tolist())))
    for p in orig:
        d = min(point_seg_dist(p, res[k], res[k + 1]) for k in range(len(res) - 1))
        if d > eps * (1 + 1e-9) + 1e-12:
            out.append(("C17.linearisation_within_max_deviation", dict(point=p.tolist(), distance=d, eps=eps)))
            break
    return out


def profiles(tier, rnd):
    """Long T-h profiles, enthalpy-descending as the heat-pump code passes them: rows [h, T]."""
    out = []
    ns = [50, 101, 200] if tier == "quick" else [50, 101, 200, 400, 500]
    for n in ns:
        for p in (0.5, 2.0, 3.0):
            for eps in (0.1, 0.5):
                xs = [i / (n - 1) for i in range(n)]
                pts = [[100.0 * (1 - x), 30.0 + 100.0 * (1 - x) ** p] for x in xs]          # h descending, T descending
                out.append((f"power{p}|n={n}|eps={eps}", pts, eps))
        # de-superheating + condensation plateau + sub-cooling
        for eps in (0.1, 0.5):
            pts = []
            for i in range(n):
                x = i / (n - 1)
                h = 100.0 * (1 - x)
                T = 140.0 - 300.0 * x if x < 0.2 else 80.0 if x < 0.8 else 80.0 - 150.0 * (x - 0.8)
                pts.append([h, T])
            out.append((f"twophase|n={n}|eps={eps}", pts, eps))
        # noisy monotone
        T = 200.0; pts = []
        for i in range(n):
            T -= rnd.random() * 2.0
            pts.append([100.0 * (1 - i / (n - 1)), T])
        out.append((f"noisy|n={n}", pts, 0.3))
    # short smooth profiles on which the refinement converges (S-shaped, gas-cooler-like): sidedness is then decided by the
    # constraint the code builds, not by the optimiser's slack; the hot/cold flag is passed as numpy.bool_ (seed C17d)
    for kind in ("S", "gc"):
        for n in (40, 80):
            for eps in (0.05, 0.1):
                xs = [i / (n - 1) for i in range(n)]
                if kind == "S":
                    pts = [[100.0 * (1 - x), 120.0 - 90.0 / (1.0 + math.exp(-10.0 * (x - 0.5)))] for x in xs]
                else:
                    pts = [[100.0 * (1 - x), 30.0 + 90.0 * (1 - x) ** 0.45 + 10.0 * (1 - x) ** 3] for x in xs]
                out.append((f"npflag-{kind}|n={n}|eps={eps}", pts, eps))
    return out


def trace_events(tier):
    repo_import()
    from OpenPinch.utils.stream_linearisation import get_piecewise_data_points
    import numpy as np
    rnd = random.Random(seed())
    events, meta = [], {}
    # observe the optimiser the library calls (harness-side wrapper around the module's `minimize`; /repo is not touched):
    # did SLSQP report success, and does its answer satisfy the one-sided constraint it was given?
    import OpenPinch.utils.stream_linearisation as SL
    calls = []
    real_min = SL.minimize

    def spy(*a, **k):
        res = real_min(*a, **k)
        con = k.get("constraints")
        ok = True
        try:
            v = float(con.fun(res.x))
            ok = (con.lb - 1e-7 <= v <= con.ub + 1e-7)
        except Exception:
            pass
        calls.append(bool(res.success) and ok)
        return res
    SL.minimize = spy
    try:
        _collect(tier, rnd, events, meta, calls, get_piecewise_data_points, np)
    finally:
        SL.minimize = real_min
    return events, meta


def _collect(tier, rnd, events, meta, calls, get_piecewise_data_points, np):
    for pi, (name, pts, eps) in enumerate(profiles(tier, rnd)):
        for hot in (True, False):
            eid = f"{name}|{'hot' if hot else 'cold'}"
            del calls[:]
            try:
                # the flag as a caller derives it from a T-h array (numpy.bool_) on every second profile, as a Python bool otherwise
                flag = np.bool_(hot) if (pi % 2 or name.startswith("npflag")) else hot
                res = np.asarray(get_piecewise_data_points(curve=[list(p) for p in pts], is_hot_stream=flag, dt_diff_max=eps), float)
            except Exception as e:
                meta[eid] = dict(raises=repr(e)[:200])
                continue
            o = np.asarray(pts, float)
            ends = bool(np.allclose(res[0], o[0]) and np.allclose(res[-1], o[-1]))
            ordered = bool(np.all(np.diff(res[:, 0]) <= 1e-12))
            span = float(max(np.ptp(o[:, 0]), np.ptp(o[:, 1]), 1e-9))
            unit = max(eps / 100.0, span / 25000.0)          # products of two coordinates must stay inside 32 bits
            epsu = eps / unit
            ev = []
            for p in o:
                # spanning segment by abscissa (h descending)
                k = int(np.searchsorted(-res[:, 0], -p[0], side="right")) - 1
                k = max(0, min(k, len(res) - 2))
                a_, b_ = res[k], res[k + 1]
                ev.append(dict(px=int(round((p[0] - a_[0]) / unit)), py=int(round((p[1] - a_[1]) / unit)),
                               sx=int(round((b_[0] - a_[0]) / unit)), sy=int(round((b_[1] - a_[1]) / unit))))
            # exact-float judgement of the same clauses (the integer transport to TLC is coarser than eps/10 on wide profiles)
            fl = [c for c, _ in judge_rdp(o, res, eps) if c != "C17.linearisation_original_order"]     # refined points are not original points; order = monotone abscissa (flag 'ordered')
            gap = np.interp(o[::-1, 0], res[::-1, 0], res[::-1, 1]) - o[::-1, 1]
            excess = float(gap.max() if hot else -gap.min()) / eps          # worst one-sided excursion, in units of the tolerance
            if excess > 0.1 + 1e-5:
                fl.append("C17.linearisation_one_sided")
            meta[eid] = dict(float_fails=fl, excess=excess)
            events.append(dict(id=eid, hot=hot, onesided=True, refined=bool(len(res) > 10), endsKept=ends, ordered=ordered, pts=ev,
                               epsu=int(round(epsu)), npts=len(res), slsqp_ok=bool(calls[-1]) if calls else True, ncalls=len(calls)))


def kf_unrefined(v, f):
    return v.clause == "C17.linearisation_one_sided" and not v.case.get("refined", True)


def kf_slsqp(v, f):
    """refined profile for which SLSQP did not report success, or whose answer violates the constraint it was given:
    the optimiser's result is used unchecked (observed by a harness-side wrapper around the module's `minimize`)"""
    if not (v.case.get("refined") and v.case.get("slsqp_ok") is False):
        return False
    if v.clause == "C17.linearisation_one_sided":
        return True
    # the overall tolerance may only be missed after the code has used up all ten of its retries
    return v.clause == "C17.linearisation_within_max_deviation" and v.case.get("ncalls", 0) >= 10

# ---------------------------------------------------------------------------
# clean_composite_curve near its tolerance: spec/CleanTol.tla
U_TOL = 1e-6 * 5.0 / 31.0      # one ordinate unit in K: the code's tolerance 1e-6 K is 31/5 units
CT_BASE = dict(YU=100, Perts={0, 4, 8}, TolNum=31, TolDen=5, XDen=1000, RawOnly=False, CrossTol=False)
CT_CFG = {"quick": dict(MaxPts=4, MaxCoord=4, XMax=3), "thorough": dict(MaxPts=5, MaxCoord=4, XMax=4)}


def _ct_tlc(consts, invs=(), post=None, env=None, workers=16):
    tmp = Path(tempfile.mkdtemp(prefix="tlccfg_"))
    try:
        cfg = tmp / "mc.cfg"
        write_cfg(cfg, spec="Spec", constants=consts, invariants=invs, postcondition=post)
        return run_tlc("CleanTol.tla", cfg, workers=workers, xmx="8g", env=env)
    finally:
        shutil.rmtree(tmp, ignore_errors=True)


def _kept_indices(ys, ry):
    """indices (1-based) of the returned points in the input (ordinates are strictly descending and distinct)"""
    out = []
    for v in ry:
        j = min(range(len(ys)), key=lambda k: abs(ys[k] - v))
        if abs(ys[j] - v) > 1e-9:
            return None
        out.append(j + 1)
    return out


def long_curves(tier, rnd):
    """gently curved composite curves of 20-500 points (every point within the tolerance of its raw neighbours' chord),
    as integer records in CleanTol units: [[x, y]] with x = enthalpy index, y = ordinate in units of U_TOL"""
    out = []
    for n in ((20, 60, 200, 500) if tier == "quick" else (20, 35, 60, 120, 200, 350, 500)):
        for k in range(2 if tier == "quick" else 6):
            bend = rnd.choice([1, 2, 3, 5]) * rnd.choice([1, -1])        # second difference in units (<= 5 < 6.2: raw test drops every point)
            slope = rnd.choice([50, 400, 3000])
            ys, y = [], 0
            for i in range(n):
                ys.append(y)
                y -= slope + (bend * i if bend > 0 else -bend * (n - i))
            ys = [v - ys[-1] for v in ys]
            if max(ys) > 1_500_000_000 // (n + 1):
                continue
            out.append(dict(id=f"long|n={n}|bend={bend}|slope={slope}|{k}", curve=[[n - 1 - i, ys[i]] for i in range(n)]))
    return out


def leg_cleantol(run, tier, clean_composite_curve, rnd):
    consts = dict(CT_BASE, Mode='"gen"', DoEmit=True, **CT_CFG["quick" if tier == "quick" else "thorough"])
    res = _ct_tlc(consts, ["C17_CleanWithinTol", "EmitCase"])
    run.add_tlc(res, "CleanTol/gen")
    if res.violated:
        run.machinery_errors.append(f"Leg M: spec/CleanTol.tla violates {res.violated}:\n{res.error_trace[:1200]}")
        return
    scales = (50.0, 1.0 / 3.0, 1e-3)          # kW-, 1/3- and MW-scale enthalpy units: the function must not care
    events = []
    n_mismatch = 0
    for ci, case in enumerate(res.cases):
        curve = case["curve"]
        c2 = scales[(ci + seed()) % 3]
        a = 100.0 if ci % 2 else 0.0
        # the enthalpy axis may also carry an offset (a cold composite curve starts at the cold utility target, a cumulative column
        # of a large site at thousands of kW): "flat" and "collinear" are statements about differences, so neither the unit nor the
        # origin may matter.  Offset 2e5 units: a RELATIVE comparison at 1e-5 would call everything within 2 units of an end flat.
        for off in ((0.0, 2e5 * c2) if ci % 2 == 0 else (0.0,)):
            ys = [a + U_TOL * p[1] for p in curve]; xs = [off + c2 * p[0] for p in curve]
            run.cov["evaluations"] += 1
            run.cov["traces_validated_against_impl"] += 1
            try:
                ry, rx = clean_composite_curve(ys, xs)
            except Exception as e:
                run.violation("C17.clean_raises", dict(curve=curve, c=c2, off=off), dict(exc=repr(e)[:200])); continue
            kept = _kept_indices(ys, list(ry))
            if kept is None:
                run.violation("C17.clean_original_order", dict(curve=curve, c=c2, a=a, off=off), dict(reason="a returned point is not an input point", T=[float(v) for v in ry])); continue
            if kept != case["kept"]:
                n_mismatch += 1
                if n_mismatch <= 20:
                    run.drift.append(f"clean_composite_curve keeps {kept}, spec/CleanTol.tla {case['kept']} on {curve} (x scale {c2}, offset {off})")
            # the specification's own result is judged by the invariant; a real result is sent to the judge when it differs, plus a sample
            if kept != case["kept"] or ci % 40 == seed() % 40:
                events.append(dict(id=f"ct|{ci}|{c2}|{off}", curve=curve, kept=kept, c=c2, a=a, off=off))
    for rec in long_curves(tier, rnd):
        curve = rec["curve"]
        for c2 in scales:
            ys = [U_TOL * p[1] for p in curve]; xs = [c2 * p[0] for p in curve]
            run.cov["evaluations"] += 1
            run.cov["traces_validated_against_impl"] += 1
            try:
                ry, rx = clean_composite_curve(ys, xs)
            except Exception as e:
                run.violation("C17.clean_raises", dict(id=rec["id"], c=c2), dict(exc=repr(e)[:200])); continue
            kept = _kept_indices(ys, list(ry))
            if kept is None:
                run.violation("C17.clean_original_order", dict(id=rec["id"], c=c2), dict(reason="a returned point is not an input point")); continue
            events.append(dict(id=f"{rec['id']}|{c2}", curve=curve, kept=kept, c=c2, a=0.0))
    run.notes["cleantol"] = dict(cases=len(res.cases), differing_from_spec=n_mismatch, judged_events=len(events))
    tmp = Path(tempfile.mkdtemp(prefix="trace_"))
    try:
        tf = tmp / "ct.json"
        tf.write_text(json.dumps([dict(id=e["id"], curve=e["curve"], kept=e["kept"]) for e in events]))
        jr = _ct_tlc(dict(CT_BASE, Mode='"judge"', DoEmit=False, **CT_CFG["quick"]), [], post="TraceAccepted", env={"TRACE_FILE": str(tf)}, workers=1)
    finally:
        shutil.rmtree(tmp, ignore_errors=True)
    run.add_tlc(jr, "CleanTol/judge")
    if jr.violated:
        raise MachineryError("CleanTol trace not consumed:\n" + jr.stdout[-1500:])
    byid = {e["id"]: e for e in events}
    for tag, obj in jr.lines:
        if tag == "VERDICT":
            e = byid[obj["id"]]
            small = e if len(e["curve"]) <= 12 else dict(id=e["id"], kept=e["kept"], c=e["c"], a=e["a"], n=len(e["curve"]))
            for c in obj["fails"]:
                run.violation(c, small, dict(leg="T", judge="TLC CleanTol!Fails", unit_K=U_TOL), leg="T")
    if tier == "thorough":
        mm = {}
        for label, ov in (("RawOnly", dict(RawOnly=True)), ("CrossTol+RawOnly", dict(RawOnly=True, CrossTol=True))):
            r = _ct_tlc(dict(CT_BASE, Mode='"gen"', DoEmit=False, **CT_CFG["quick"], **ov), ["C17_CleanWithinTol"])
            mm[label] = r.violated
            if not r.violated:
                run.machinery_errors.append(f"mutant model CleanTol/{label} not rejected")
        run.notes["mutant_models_cleantol"] = mm


def check(prop, tier, run: Run, replay_case=None):
    repo_import()
    import numpy as np
    from OpenPinch.utils.miscellaneous import clean_composite_curve
    from OpenPinch.utils.stream_linearisation import _rdp, get_piecewise_data_points
    run.register_matcher("kf_unrefined", kf_unrefined)
    run.register_matcher("kf_slsqp", kf_slsqp)
    run.assumptions += ["lattice polylines for the exhaustive part; float profiles for the trace part are transported to TLC in units of eps/100 relative to the spanning segment",
                        "one-sidedness is judged for every returned profile; results with <= 10 breakpoints are returned unrefined by the code (known finding)"]
    nontriv = set()
    names = ["clean", "rdp"] if tier == "quick" else ["clean_deep", "rdp", "rdp_deep"]
    for name in names:
        kind = "clean" if name.startswith("clean") else "rdp"
        res = _tlc(dict(BASE, **CFGS[name], DoEmit=True), INVS[kind])
        run.add_tlc(res, name)
        if res.violated:
            run.machinery_errors.append(f"Leg M: spec/CurveSimplify.tla violates {res.violated} ({name}):\n{res.error_trace[:1200]}")
            continue
        run.cov["exhaustive"] = True
        for ci, case in enumerate(res.cases):
            curve = case["curve"]
            run.cov["evaluations"] += 1
            run.cov["traces_validated_against_impl"] += 1
            if kind == "clean":
                a, b, c = (100.0, 10.0, 50.0) if ci % 2 == 0 else (0.1 + 0.2, 0.07, 1.0 / 3.0)
                y = [a + b * p[1] for p in curve]; x = [c * p[0] for p in curve]
                try:
                    ry, rx = clean_composite_curve(y, x)
                except Exception as e:
                    run.violation("C17.clean_raises", case, dict(exc=repr(e)[:200])); continue
                for clause, d in judge_clean(curve, ry, rx, a, b, c):
                    run.violation(clause, case, d)
                exp = [[c * p[0], a + b * p[1]] for p in case["result"]]
                got = [[float(u), float(v)] for u, v in zip(rx, ry)]
                if len(exp) != len(got) or any(abs(e[0] - g[0]) + abs(e[1] - g[1]) > 1e-6 for e, g in zip(exp, got)):
                    run.drift.append(f"clean_composite_curve differs from spec on {curve}")
                if len(case["result"]) < len(curve):
                    nontriv.add(json.dumps(curve))
            else:
                s = 1.0 if ci % 2 == 0 else 0.37
                eps = math.sqrt(case["eps2"]) * s
                pts = [[s * p[0], s * p[1]] for p in curve]
                forms = [("_rdp", lambda: _rdp(np.array(pts, float), eps)),
                         ("get_piecewise_data_points", lambda: get_piecewise_data_points(curve=pts, is_hot_stream=bool(ci % 4 < 2), dt_diff_max=eps))]
                if s == 1.0:      # the same table written in whole numbers (integer lists / an integer array): the answer may not depend on the number type
                    ipts = [[int(p[0]), int(p[1])] for p in curve]
                    forms += [("_rdp[int array]", lambda: _rdp(np.array(ipts), eps)),
                              ("get_piecewise_data_points[int lists]", lambda: get_piecewise_data_points(curve=ipts, is_hot_stream=bool(ci % 4 < 2), dt_diff_max=eps))]
                for fn_name, fn in forms:
                    try:
                        r = fn()
                    except Exception as e:
                        run.violation("C17.linearisation_raises", case, dict(fn=fn_name, exc=repr(e)[:200])); continue
                    for clause, d in judge_rdp(pts, r, eps):
                        run.violation(clause, case, dict(d, fn=fn_name))
                    exp = [[s * p[0], s * p[1]] for p in case["result"]]
                    if fn_name.startswith("_rdp") and (len(exp) != len(r) or not np.allclose(np.asarray(exp), np.asarray(r))):
                        run.drift.append(f"_rdp differs from spec on {curve} eps2={case['eps2']}")
                if 2 < len(case["result"]) < len(curve):
                    nontriv.add(json.dumps([curve, case["eps2"]]))
        run.cov["samples"] += [{"config": name, "curve": c["curve"], "result": c["result"]} for c in res.cases[len(res.cases) // 2:][:1]]
    leg_cleantol(run, tier, clean_composite_curve, random.Random(170 + seed()))
    # ---- Leg T
    events, meta = trace_events(tier)
    tmp = Path(tempfile.mkdtemp(prefix="trace_"))
    try:
        tf = tmp / "curves.json"
        tf.write_text(json.dumps(events))
        tres = _tlc(dict(BASE, Mode='"trace"', MaxPts=2, MaxCoord=1, Eps2Set={1}, DoEmit=False), [], post="TraceAccepted",
                    env={"TRACE_FILE": str(tf)}, workers=1)
    finally:
        shutil.rmtree(tmp, ignore_errors=True)
    run.add_tlc(tres, "trace")
    if tres.violated:
        raise MachineryError("curve trace not consumed:\n" + tres.stdout[-1500:])
    byid = {e["id"]: e for e in events}
    for tag, obj in tres.lines:
        if tag == "VERDICT":
            e = byid[obj["id"]]
            for c in obj["fails"]:
                run.violation(c, dict(id=e["id"], refined=e["refined"], npts=e["npts"], hot=e["hot"], excess=meta.get(e["id"], {}).get("excess"), slsqp_ok=e["slsqp_ok"], ncalls=e["ncalls"]),
                              dict(leg="T", judge="TLC"), leg="T")
    for eid, m in meta.items():
        if "raises" in m:
            run.violation("C17.linearisation_raises", dict(id=eid), m, leg="T")
        for c in m.get("float_fails", []):
            e = byid[eid]
            run.violation(c, dict(id=e["id"], refined=e["refined"], npts=e["npts"], hot=e["hot"], excess=m.get("excess"), slsqp_ok=e["slsqp_ok"], ncalls=e["ncalls"]), dict(leg="T", judge="float"), leg="T")
    run.cov["evaluations"] += sum(len(e["pts"]) for e in events)
    run.cov["traces_validated_against_impl"] += len(events)
    run.notes["trace_profiles"] = dict(events=len(events), refined=sum(1 for e in events if e["refined"]), epsu_min=min(e["epsu"] for e in events))
    run.cov["samples"].append({"trace_event": events[0]["id"], "points_returned": events[0]["npts"], "first_points": events[0]["pts"][:3]})
    run.cov["distinct_nontrivial"] = len(nontriv) + sum(1 for e in events if e["refined"])
    run.cov["rule"] = ("clean: every polyline of 3..5 points (T from subsets of 0..5, H in 0..2); rdp: every monotone polyline of 2..5 points over 0..3 x 3 tolerances; "
                       "trace: power-law, two-phase and noisy profiles of 50-500 points, hot and cold; non-trivial = a point was removed (exhaustive part) or the refinement ran (trace part)")
    if tier == "thorough":
        mm = {}
        for sw, cfgname, invs in (("DropSpike", "clean", INVS["clean"][:2]), ("RdpNoSplit", "rdp", INVS["rdp"][:3])):
            r = _tlc(dict(BASE, **CFGS[cfgname], DoEmit=False, **{sw: True}), invs)
            mm[sw] = r.violated
            if not r.violated:
                run.machinery_errors.append(f"mutant model {sw} not rejected")
        run.notes["mutant_models"] = mm
