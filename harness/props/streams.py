"""C19: stream and stream-collection objects stay consistent under any use.

Leg M  spec/StreamObject.tla (every setter sequence) and spec/StreamColl.tla (every sequence of collection
       operations interleaved with member assignments), TLC exhaustive
Leg R  behaviours exported by TLC (all of them for the stream object; simulated ones for the collection) are
       replayed on real Stream / StreamCollection objects; the property predicates are evaluated on the real
       object after EVERY call and the final abstract state is compared with the specification's
"""
from __future__ import annotations

import json
import shutil
import tempfile
from fractions import Fraction as F
from pathlib import Path

from ..common import Run, repo_import, seed
from ..tlc import run_tlc, write_cfg

OBJ_BASE = dict(KindSticky=False, HtrStale=False)
OBJ_CFG = {"quick": dict(TVals={0, 100, 200}, QVals={0, 2, 6}, DVals={0, 50}, HVals={1, 2}, MaxOps=3),
           "deep": dict(TVals={0, 100, 200}, QVals={0, 2, 6}, DVals={0, 50}, HVals={1, 2}, MaxOps=4),
           "tiny": dict(TVals={0, 100}, QVals={0, 2}, DVals={0, 50}, HVals={1, 2}, MaxOps=3)}
OBJ_INVS = ["C19_Duty", "C19_Ordered", "C19_Shift", "C19_Recip", "EmitCase"]
COLL_BASE = dict(CacheStale=False, ReplaceOverwrites=False, RenameOffByOne=False)
COLL_CFG = {"quickA": dict(Ids={1, 2, 3, 4}, Vals={100, 200}, MaxOps=4),
            "quickB": dict(Ids={1, 2}, Vals={100, 200}, MaxOps=5),
            "deepB": dict(Ids={1, 2}, Vals={100, 200}, MaxOps=6),
            "deepA": dict(Ids={1, 2, 3}, Vals={100, 200}, MaxOps=5)}
COLL_INVS = ["C19_Len", "C19_Iterate", "C19_Concat", "EmitCase"]
COLL_PROPS = ["C19_AddKeeps", "C19_ReplaceKeeps"]
NAME_OF = {1: "a", 2: "a", 3: "a_1", 4: "a_2"}


def _tlc(module, consts, invs, props=(), simulate=None, depth=None, workers=16):
    tmp = Path(tempfile.mkdtemp(prefix="tlccfg_"))
    try:
        cfg = tmp / "mc.cfg"
        write_cfg(cfg, spec="Spec", constants=consts, invariants=invs, properties=props)
        return run_tlc(module, cfg, workers=workers, xmx="8g", simulate=simulate, depth=depth, seed=seed() if simulate else None)
    finally:
        shutil.rmtree(tmp, ignore_errors=True)


# ---------------------------------------------------------------------------
B = 0.01     # native embedding: one lattice unit = 0.01 K (the code's own latent-stream width)
A0 = 50.0
C = 7.0 / 3.0


def _obj_pred(st):
    """C19 predicates on a real Stream."""
    out = []
    dead = st.t_supply == st.t_target
    span = st.t_max - st.t_min
    if abs(st.CP * span - st.heat_flow) > 1e-9 * max(1.0, abs(st.heat_flow)):
        out.append(("C19.cp_times_span_is_duty", dict(CP=st.CP, span=span, duty=st.heat_flow, dead=dead)))
    if st.t_min > st.t_max:
        out.append(("C19.tmin_le_tmax", dict(t_min=st.t_min, t_max=st.t_max, dead=dead)))
    sgn = -1.0 if st.type == "Hot" else 1.0
    if abs(st.t_min_star - (st.t_min + sgn * st.dt_cont)) > 1e-9 or abs(st.t_max_star - (st.t_max + sgn * st.dt_cont)) > 1e-9:
        out.append(("C19.shift_by_kind", dict(kind=st.type, t_min=st.t_min, t_min_star=st.t_min_star, dt_cont=st.dt_cont, dead=dead)))
    if abs(st.htr * st.htc - 1.0) > 1e-12:
        out.append(("C19.resistance_is_reciprocal", dict(htc=st.htc, htr=st.htr, dead=dead)))
    return out


def replay_obj(case, Stream, zero_at=None, fine=False):
    """zero_at = a lattice temperature value mapped to exactly 0.0 (A0 = -B * zero_at); None = the native offset 50.0.
    fine = a frame 300 times finer (100 lattice units = 0.003 K): spans far below the library's 0.01 K latent-stream
    width; only behaviours that never make supply equal target are replayed there (the 0.01 K rule is not scale-free)."""
    hist = case["hist"]
    A0 = 50.0 if zero_at is None else -B * zero_at
    if fine:
        return _replay_obj_fine(case, Stream)
    ts, tt, q, d, h = hist[0][1]
    st = Stream("s", t_supply=A0 + B * ts, t_target=A0 + B * tt, heat_flow=C * q, dt_cont=B * d, htc=float(h))
    out = [(c, dict(dd, step=0)) for c, dd in _obj_pred(st)]
    for i, (name, v) in enumerate(hist[1:], 1):
        if name in ("t_supply", "t_target"):
            setattr(st, name, A0 + B * v)
        elif name == "heat_flow":
            st.heat_flow = C * v
        elif name == "dt_cont":
            st.dt_cont = B * v
        elif name == "htc":
            st.htc = float(v)
        elif name == "set_heat_flow":
            st.set_heat_flow(C * v)
        out += [(c, dict(dd, step=i, op=name)) for c, dd in _obj_pred(st)]
    s = case["s"]
    exp = dict(t_min=A0 + B * s["tmin"], t_max=A0 + B * s["tmax"], t_min_star=A0 + B * s["tminS"], t_max_star=A0 + B * s["tmaxS"],
               CP=C / B * float(F(*s["cp"])), heat_flow=C * s["q"], type=s["kind"], htr=float(F(*s["htr"])))
    drift = None
    for k, v in exp.items():
        got = getattr(st, k)
        if (isinstance(v, str) and got != v) or (not isinstance(v, str) and abs(got - v) > 1e-7 * max(1.0, abs(v))):
            drift = f"Stream.{k}: real {got} vs spec {v} after {hist}"
            if k in ("t_min", "t_max", "type"):
                # "its temperature span", "its kind": those of the temperatures the caller assigned (the specification's state)
                out.append(("C19.bounds_follow_assigned_temperatures", dict(attr=k, got=got, expected=v, dead=(st.t_supply == st.t_target))))
    return out, drift


BARE_BASE = dict(OBJ_BASE, BareHtrStale=False)
BARE_INVS = ["C19B_Recip", "C19B_Duty", "C19B_Ordered", "C19B_Shift", "EmitCaseB"]


def replay_bare(case, Stream):
    """A stream constructed without temperatures and assembled one assignment at a time (spec/StreamBare.tla): the reciprocal
    relation is judged after every call, the relations that speak about a span once both temperatures are there."""
    hist = case["hist"]
    q, d, h = hist[0][1]
    st = Stream("s", heat_flow=C * q, dt_cont=B * d, htc=float(h))
    have = set()

    def preds(step, op):
        if {"t_supply", "t_target"} <= have:
            return [(c, dict(dd, step=step, op=op, bare=True)) for c, dd in _obj_pred(st)]
        if abs(st.htr * st.htc - 1.0) > 1e-12:
            return [("C19.resistance_is_reciprocal", dict(htc=st.htc, htr=st.htr, step=step, op=op, bare=True, complete=False))]
        return []
    out = preds(0, "bare")
    for i, (name, v) in enumerate(hist[1:], 1):
        if name in ("t_supply", "t_target"):
            setattr(st, name, A0 + B * v); have.add(name)
        elif name == "heat_flow":
            st.heat_flow = C * v
        elif name == "dt_cont":
            st.dt_cont = B * v
        elif name == "htc":
            st.htc = float(v)
        elif name == "set_heat_flow":
            st.set_heat_flow(C * v)
        out += preds(i, name)
    drift = None
    s = case["s"]
    if s["hasTs"] and s["hasTt"]:
        exp = dict(t_min=A0 + B * s["tmin"], t_max=A0 + B * s["tmax"], CP=C / B * float(F(*s["cp"])), heat_flow=C * s["q"], type=s["kind"], htr=float(F(*s["htr"])))
        for k, v in exp.items():
            got = getattr(st, k)
            if (isinstance(v, str) and got != v) or (not isinstance(v, str) and abs(got - v) > 1e-7 * max(1.0, abs(v))):
                drift = f"bare Stream.{k}: real {got} vs spec {v} after {hist}"
                if k in ("t_min", "t_max", "type"):
                    out.append(("C19.bounds_follow_assigned_temperatures", dict(attr=k, got=got, expected=v, bare=True, dead=(st.t_supply == st.t_target))))
    return out, drift


def _replay_obj_fine(case, Stream):
    Bf = B * 0.003
    hist = case["hist"]
    ts, tt, q, d, h = hist[0][1]
    cur = dict(ts=ts, tt=tt)
    if ts == tt:
        return [], None
    st = Stream("s", t_supply=50.0 + Bf * ts, t_target=50.0 + Bf * tt, heat_flow=C * q, dt_cont=Bf * d, htc=float(h))
    out = []
    def bounds(step, op):
        lo, hi = 50.0 + Bf * min(cur["ts"], cur["tt"]), 50.0 + Bf * max(cur["ts"], cur["tt"])
        kind = "Hot" if cur["ts"] > cur["tt"] else "Cold"
        if abs(st.t_min - lo) > 1e-9 or abs(st.t_max - hi) > 1e-9 or st.type != kind:
            out.append(("C19.bounds_follow_assigned_temperatures", dict(step=step, op=op, t_min=st.t_min, t_max=st.t_max, kind=st.type,
                                                                         assigned=[50.0 + Bf * cur["ts"], 50.0 + Bf * cur["tt"]], frame="fine")))
    out += [(c, dict(dd, step=0, frame="fine")) for c, dd in _obj_pred(st)]
    bounds(0, "init")
    for i, (name, v) in enumerate(hist[1:], 1):
        if name in ("t_supply", "t_target"):
            cur["ts" if name == "t_supply" else "tt"] = v
            if cur["ts"] == cur["tt"]:
                return out, None          # the isothermal rule takes over: not replayed in this frame
            setattr(st, name, 50.0 + Bf * v)
        elif name == "heat_flow":
            st.heat_flow = C * v
        elif name == "dt_cont":
            st.dt_cont = Bf * v
        elif name == "htc":
            st.htc = float(v)
        elif name == "set_heat_flow":
            st.set_heat_flow(C * v)
        out += [(c, dict(dd, step=i, op=name, frame="fine")) for c, dd in _obj_pred(st)]
        bounds(i, name)
    return out, None


def kf_dead(v, f):
    """KF-C19-dead: the stream is in the zero-duty equal-temperature state (t_supply == t_target)."""
    return bool(v.detail.get("dead")) and v.clause in ("C19.cp_times_span_is_duty", "C19.shift_by_kind", "C19.bounds_follow_assigned_temperatures")


def keystr(k):
    return k


def replay_coll(case, Stream, SC):
    obj0 = case["obj0"]
    objs = {i + 1: Stream(NAME_OF[i + 1], t_supply=1000.0 + o["ts"], t_target=float(o["tt"]), heat_flow=10.0) for i, o in enumerate(obj0)}
    ident = {id(s): i for i, s in objs.items()}
    coll, other = SC(), SC()
    by, rev = "t_supply", True
    out = []

    def members(c):
        return [ident[id(s)] for s in c._streams.values()]

    def check_iter(step, op):
        seq = list(coll)
        ids = [ident[id(s)] for s in seq]
        if sorted(ids) != sorted(members(coll)) or len(seq) != len(coll):
            out.append(("C19.iterates_exactly_members", dict(step=step, op=op, order=ids, members=members(coll), len=len(coll))))
        keys = [getattr(s, by) for s in seq]
        if any((a < b) if rev else (a > b) for a, b in zip(keys, keys[1:])):
            out.append(("C19.iteration_in_sort_key_order", dict(step=step, op=op, keys=keys, by=by, reverse=rev)))
        return ids
    for step, (name, arg) in enumerate(case["hist"], 1):
        before = set(members(coll))
        if name == "add":
            coll.add(objs[arg])
            if not (before <= set(members(coll))) or len(set(members(coll))) != len(before) + 1:
                out.append(("C19.add_keeps_members", dict(step=step, before=sorted(before), after=members(coll))))
        elif name == "add_other":
            other.add(objs[arg])
        elif name == "remove":
            coll.remove(keystr(arg))
        elif name == "replace":
            coll.replace({f"k{j}": objs[i] for j, i in enumerate(arg)})
            if sorted(members(coll)) != sorted(arg):
                out.append(("C19.replace_keeps_members", dict(step=step, given=arg, after=members(coll))))
        elif name == "set_sort_key":
            by, rev = ("t_supply" if arg[0] == "ts" else "t_target"), bool(arg[1])
            coll.set_sort_key(by, reverse=rev)
        elif name == "member_ts":
            objs[arg[0]].t_supply = 1000.0 + arg[1]
        elif name == "iterate":
            check_iter(step, name)
        elif name == "concat":
            c3 = coll + other
            m3 = [ident[id(s)] for s in c3._streams.values()]
            if sorted(m3) != sorted(members(coll) + members(other)) or len(c3) != len(coll) + len(other):
                out.append(("C19.concatenation_holds_all", dict(step=step, got=m3, left=members(coll), right=members(other))))
        if len(coll) != len(set(members(coll))) or len(coll) != len(coll._streams):
            out.append(("C19.len_is_members_held", dict(step=step, len=len(coll), members=members(coll))))
        check_iter(step, "after:" + name)
    drift = None
    keys = [keystr(k) for k in case["keys"]]
    if list(coll._streams.keys()) != keys or members(coll) != case["ids"] or [ident[id(s)] for s in coll] != case["order"]:
        drift = f"collection differs from spec: keys {list(coll._streams.keys())} vs {keys}; order {[ident[id(s)] for s in coll]} vs {case['order']}"
    return out, drift


def mutant_selftest(run):
    res = {}
    for sw in ("KindSticky", "HtrStale"):
        r = _tlc("StreamObject.tla", dict(OBJ_BASE, **OBJ_CFG["tiny"], DoEmit=False, **{sw: True}), OBJ_INVS)
        res[sw] = r.violated
        if not r.violated:
            run.machinery_errors.append(f"mutant model {sw} not rejected")
    for inv in ("C19_DutyStrict", "C19_ShiftStrict"):
        r = _tlc("StreamObject.tla", dict(OBJ_BASE, **OBJ_CFG["tiny"], DoEmit=False), [inv])
        res["carve_out_nonempty:" + inv] = r.violated
    for sw, cfg in (("CacheStale", "quickB"), ("ReplaceOverwrites", "quickA"), ("RenameOffByOne", "quickA")):
        r = _tlc("StreamColl.tla", dict(COLL_BASE, **COLL_CFG[cfg], DoEmit=False, **{sw: True}), COLL_INVS, COLL_PROPS)
        res[sw] = r.violated
        if not r.violated:
            run.machinery_errors.append(f"mutant model {sw} not rejected")
    run.notes["mutant_models"] = res


def check(prop, tier, run: Run, replay_case=None):
    repo_import()
    from OpenPinch.classes.stream import Stream
    from OpenPinch.classes.stream_collection import StreamCollection
    run.register_matcher("kf_dead", kf_dead)
    if replay_case is not None:
        c = replay_case["case"]
        if "s" in c and c["hist"][0][0] == "bare":
            out, _ = replay_bare(c, Stream)
        else:
            out, _ = replay_obj(c, Stream, c.get("zero_at")) if "s" in c else replay_coll(c, Stream, StreamCollection)
        for clause, d in out:
            run.violation(clause, c, d)
        run.cov["evaluations"] = 1
        return
    run.assumptions += ["stream attribute values on a small lattice (0.01 K unit so the code's latent-stream rule is an integer step), replayed at offset 50.0 and in a frame where one lattice temperature is exactly 0.0; film coefficient > 0",
                        "collection members: four objects with clashing names a, a, a_1, a_2"]
    nontriv = set()
    # ---- stream object
    name = "quick" if tier == "quick" else "deep"
    res = _tlc("StreamObject.tla", dict(OBJ_BASE, **OBJ_CFG[name], DoEmit=True), OBJ_INVS)
    run.add_tlc(res, "StreamObject/" + name)
    if res.violated:
        run.machinery_errors.append(f"Leg M: spec/StreamObject.tla violates {res.violated}:\n{res.error_trace[:1500]}")
    else:
        run.cov["exhaustive"] = True
        tvals = sorted(OBJ_CFG[name]["TVals"])
        import random
        rnd = random.Random(19 + seed())
        for case in res.cases:
            # every behaviour twice: native offset, and a frame in which one lattice temperature is exactly 0.0
            z = rnd.choice(tvals)
            for zero_at in (None, z, "fine"):
                try:
                    out, drift = replay_obj(case, Stream, None if zero_at == "fine" else zero_at, fine=(zero_at == "fine"))
                except Exception as e:        # constructors and setters are total on this domain
                    out, drift = [("C19.raises", dict(exc=repr(e)[:200], frame=str(zero_at)))], None
                run.cov["evaluations"] += 1
                run.cov["traces_validated_against_impl"] += 1
                for clause, d in out:
                    run.violation(clause, dict(case, zero_at=zero_at), dict(d, zero_at=zero_at))
                if drift:
                    run.drift.append(drift)
            if len({h[0] for h in case["hist"]}) > 2:
                nontriv.add(json.dumps(case["hist"]))
        run.cov["samples"] += [{"object": "Stream", "history": c["hist"]} for c in res.cases[:: max(1, len(res.cases) // 2)][:2]]
    # ---- a stream constructed without temperatures and assembled one assignment at a time
    bcfg = dict(OBJ_CFG["quick"], MaxOps=3) if tier == "quick" else dict(OBJ_CFG["quick"], TVals={0, 100}, MaxOps=4)
    tmpd = Path(tempfile.mkdtemp(prefix="tlccfg_"))
    try:
        cfgf = tmpd / "mc.cfg"
        write_cfg(cfgf, spec="SpecB", constants=dict(BARE_BASE, **bcfg, DoEmit=True), invariants=BARE_INVS)
        bres = run_tlc("StreamBare.tla", cfgf, workers=16, xmx="8g")
    finally:
        shutil.rmtree(tmpd, ignore_errors=True)
    run.add_tlc(bres, "StreamBare")
    if bres.violated:
        run.machinery_errors.append(f"Leg M: spec/StreamBare.tla violates {bres.violated}:\n{bres.error_trace[:1500]}")
    else:
        for case in bres.cases:
            try:
                out, drift = replay_bare(case, Stream)
            except Exception as e:
                out, drift = [("C19.raises", dict(exc=repr(e)[:200], bare=True))], None
            run.cov["evaluations"] += 1
            run.cov["traces_validated_against_impl"] += 1
            for clause, d in out:
                run.violation(clause, case, d)
            if drift:
                run.drift.append(drift)
        run.cov["samples"] += [{"object": "Stream (constructed without temperatures)", "history": c["hist"]} for c in bres.cases[len(bres.cases) // 2:][:1]]
    if tier == "thorough":
        tmpd = Path(tempfile.mkdtemp(prefix="tlccfg_"))
        try:
            cfgf = tmpd / "mc.cfg"
            write_cfg(cfgf, spec="SpecB", constants=dict(BARE_BASE, **dict(OBJ_CFG["tiny"]), BareHtrStale=True, DoEmit=False), invariants=BARE_INVS[:-1])
            mres = run_tlc("StreamBare.tla", cfgf, workers=16, xmx="8g")
        finally:
            shutil.rmtree(tmpd, ignore_errors=True)
        run.notes.setdefault("mutant_models_bare", {})["BareHtrStale"] = mres.violated
        if not mres.violated:
            run.machinery_errors.append("mutant model BareHtrStale not rejected")
    # ---- collection: exhaustive model check, simulated behaviours for replay
    for cname in (["quickA", "quickB"] if tier == "quick" else ["quickA", "deepA", "deepB"]):
        consts = dict(COLL_BASE, **COLL_CFG[cname])
        res = _tlc("StreamColl.tla", dict(consts, DoEmit=False), COLL_INVS[:-1], COLL_PROPS)
        run.add_tlc(res, "StreamColl/" + cname)
        if res.violated:
            run.machinery_errors.append(f"Leg M: spec/StreamColl.tla violates {res.violated}:\n{res.error_trace[:1500]}")
            continue
        n = 4000 if tier == "quick" else 30000
        sim = _tlc("StreamColl.tla", dict(consts, DoEmit=True), COLL_INVS, (), simulate=f"num={n}", depth=consts["MaxOps"] + 1, workers=4)
        for case in sim.cases:
            out, drift = replay_coll(case, Stream, StreamCollection)
            run.cov["evaluations"] += 1
            run.cov["traces_validated_against_impl"] += 1
            for clause, d in out:
                run.violation(clause, case, d)
            if drift:
                run.drift.append(drift)
            ops = {h[0] for h in case["hist"]}
            if "iterate" in ops and ("member_ts" in ops or "set_sort_key" in ops) or "concat" in ops or "replace" in ops:
                nontriv.add(json.dumps([case["obj0"], case["hist"]]))
        run.cov["samples"] += [{"object": "StreamCollection", "history": c["hist"]} for c in sim.cases[:2]]
    run.cov["distinct_nontrivial"] = len(nontriv)
    run.cov["rule"] = ("Stream: every constructor argument combination x every sequence of MaxOps setter calls (TLC exhaustive, all replayed); "
                       "collection: exhaustive model check, replay of TLC-simulated behaviours; non-trivial = at least three different setters, or "
                       "an iteration after a member/sort-key change, a concatenation or a replace; distinct by full history")
    if tier == "thorough":
        mutant_selftest(run)
