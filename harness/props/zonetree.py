"""C10: zone-tree construction conserves the streams.

Leg M  spec/ZoneTree.tla: tree synthesis from labels (pre-pass, per-path counters, clash avoidance), matching,
       bottom-up aggregation -- every set of <= 3 streams over a label universe with suffix/prefix/root/O-name
       coincidences; and resolution against a user tree
Leg R  every configuration is replayed through prepare_problem; the projected tree (streams per zone, by identity
       through unique duties) is compared with the conservation predicate and with the specification's tree
"""
from __future__ import annotations

import json
import shutil
import tempfile
from multiprocessing import Pool
from pathlib import Path

from ..common import Run, repo_import, seed
from ..tlc import run_tlc, write_cfg

BASE = dict(SuffixMatch=False, NoPrePass=False)
CFG = {"synth": dict(MaxStreams=3, LabelIds={1, 2, 3, 4, 5, 6, 7, 8, 11, 15}, UserTree=0),
       "user": dict(MaxStreams=3, LabelIds={1, 5, 8, 9, 10, 11, 12, 13}, UserTree=1),
       "user2": dict(MaxStreams=3, LabelIds={1, 2, 5, 8, 11, 12, 14}, UserTree=2),     # a zone name used at two depths
       "user3": dict(MaxStreams=3, LabelIds={1, 8, 9, 10, 12, 13, 16}, UserTree=3),     # a zone NAME that ends with another zone's name
       "tiny": dict(MaxStreams=2, LabelIds={1, 2, 4, 6, 7}, UserTree=0)}
INVS = ["C10_ExactlyOneLeaf", "C10_OncePerAncestor", "C10_LeafIsOwn", "EmitCase"]
USER_TREE = dict(name="Site", type="Site", children=[
    dict(name="A", type="Process Zone", children=[dict(name="A1", type="Process Zone", children=None)]),
    dict(name="B", type="Process Zone", children=None)])
USER_TREE2 = dict(name="Site", type="Site", children=[
    dict(name="A", type="Process Zone", children=[dict(name="B", type="Process Zone", children=None)]),
    dict(name="B", type="Process Zone", children=None)])
USER_TREE3 = dict(name="Site", type="Site", children=[
    dict(name="A", type="Process Zone", children=[dict(name="A1", type="Process Zone", children=None)]),
    dict(name="BA1", type="Process Zone", children=None)])
TREES = {1: USER_TREE, 2: USER_TREE2, 3: USER_TREE3}


def tlc_cases(name, overrides=None, emit=True):
    consts = dict(BASE); consts.update(CFG[name])
    if overrides:
        consts.update(overrides)
    consts["DoEmit"] = emit
    tmp = Path(tempfile.mkdtemp(prefix="tlccfg_"))
    try:
        cfg = tmp / "mc.cfg"
        write_cfg(cfg, spec="Spec", constants=consts, invariants=INVS)
        return run_tlc("ZoneTree.tla", cfg, workers=16, xmx="8g")
    finally:
        shutil.rmtree(tmp, ignore_errors=True)


_OP = {}


def _init():
    repo_import()
    from OpenPinch.analysis.data_preparation import prepare_problem
    from OpenPinch.lib.schema import StreamSchema, ZoneTreeSchema
    _OP.update(prepare=prepare_problem, StreamSchema=StreamSchema, ZoneTreeSchema=ZoneTreeSchema)


def twin_groups(case):
    """user-tree cases: groups of >= 2 streams of one kind and name that the specification resolves to one and the same leaf zone"""
    if not case["userTree"]:
        return []
    g = {}
    for i, s in enumerate(case["streams"]):
        if not case["carved"][i] and not case["newZone"][i]:
            g.setdefault((s["kind"], s["name"], tuple(case["assign"][i])), []).append(i)
    return [v for v in g.values() if len(v) >= 2]


def replay(arg):
    """arg = case, or (case, True): the streams of every twin group are then entered as IDENTICAL rows (same name, temperatures and duty
    -- two equal parallel trains; seed C10e), and the group must be present with its multiplicity."""
    case, twin = arg if isinstance(arg, tuple) else (arg, False)
    out = []
    streams = case["streams"]
    pad = (seed() % 2 == 1)
    rep = list(range(len(streams)))
    if twin:
        for grp in twin_groups(case):
            for i in grp:
                rep[i] = grp[0]
    mult = [rep.count(i) for i in range(len(streams))]

    def bad(clause, **d):
        out.append((clause, d))
    schemas = []
    for i, s in enumerate(streams):
        q = 100.0 + rep[i]     # a duty of its own identifies the stream (or the group of identical rows) whatever it is called
        ts, tt = (200.0, 100.0) if s["kind"] == "H" else (50.0, 150.0)
        label = s["label"]
        # the same path written less tidily (the code trims whitespace around components; with a user tree it also drops empty
        # components): chosen per stream from the case itself, so that every run exercises every form
        form = (sum(map(ord, label)) + i + len(streams) + (1 if pad else 0)) % 4
        if "/" in label and form == 1:
            label = " " + label.replace("/", " / ") + " "
        elif "/" in label and form == 2 and case["userTree"]:
            label = label + "/"
        elif "/" in label and form == 3 and case["userTree"]:
            label = label.replace("/", "//", 1)
        schemas.append(_OP["StreamSchema"](zone=label, name=s["name"], t_supply=ts, t_target=tt, heat_flow=q, dt_cont=5.0, htc=1.0))
    try:
        tree = _OP["ZoneTreeSchema"].model_validate(json.loads(json.dumps(TREES[int(case["userTree"])]))) if case["userTree"] else None
        mz = _OP["prepare"](streams=schemas, utilities=[], options={}, project_name="Site", zone_tree=tree)
    except Exception as e:
        bad("C10.prepare_raises", exc=repr(e)[:300])
        return out, {}
    n = len(streams)

    def content(z):
        c = [0] * n
        for st in list(z.hot_streams) + list(z.cold_streams):
            c[int(round(st.heat_flow - 100.0))] += 1
        return c
    zones = {}

    def walk(z, path):
        zones[tuple(path)] = z
        for sz in z.subzones.values():
            walk(sz, path + [sz.name])
    walk(mz, [])
    leaves = {p: z for p, z in zones.items() if not z.subzones}
    carved = case["carved"]
    for i in range(n):
        if carved[i] or rep[i] != i:
            continue
        inleaf = [p for p, z in leaves.items() if content(z)[i] > 0]
        if len(inleaf) != 1 or content(leaves[inleaf[0]])[i] != mult[i]:
            bad("C10.exactly_one_leaf", stream=i, label=streams[i]["label"], leaves=[list(p) for p in inleaf], identical_rows=mult[i],
                found=[content(leaves[p])[i] for p in inleaf])
            continue
        leaf = inleaf[0]
        # ... and it is the zone the stream was labelled into: with a user tree the zone the specification resolves the
        # label to; without one, a generated unit-operation zone directly below the labelled path
        want_leaf = tuple(case["assign"][i])
        lab = tuple(x for x in streams[i]["label"].split("/"))
        if case["userTree"] and not case["newZone"][i]:
            if leaf != want_leaf:
                bad("C10.leaf_is_the_labelled_zone", stream=i, label=streams[i]["label"], leaf=list(leaf), expected=list(want_leaf))
        elif not case["userTree"]:
            if leaf[:-1] != lab or not leaf[-1].startswith("O"):
                bad("C10.leaf_is_the_labelled_zone", stream=i, label=streams[i]["label"], leaf=list(leaf), expected=list(lab) + ["O<k>"])
        for p, z in zones.items():
            want = mult[i] if leaf[:len(p)] == p else 0
            if content(z)[i] != want:
                bad("C10.once_in_each_ancestor_nowhere_else", stream=i, label=streams[i]["label"], zone=list(p), count=content(z)[i], expected=want)
                break
    # per-zone counts and duties equal those of the streams labelled into it (follows from the above; checked directly at the root)
    tot = sum(1 for i in range(n) if not carved[i])
    rc = content(mz)
    if sum(rc[i] for i in range(n) if not carved[i]) != tot:
        bad("C10.site_holds_every_stream_once", content=rc)
    # every zone owns an independent copy of every utility
    ids = [id(u) for z in zones.values() for u in list(z.hot_utilities) + list(z.cold_utilities)]
    if len(ids) != len(set(ids)):
        bad("C10.utilities_are_independent_copies")
    nz = {len(list(z.hot_utilities)) + len(list(z.cold_utilities)) for z in zones.values()}
    if len(nz) != 1:
        bad("C10.every_zone_gets_every_utility", counts=sorted(nz))
    # drift: the specification's tree
    drift = None
    spec = {tuple(z["path"]): z["content"] for z in case["zones"]}
    real = {p: content(z) for p, z in zones.items() if p}
    def norm(d):
        return sorted((tuple("#" if (len(p) == 1 and p[0].startswith("#new")) else x for x in p) if p and p[0].startswith("#new") else p, tuple(c)) for p, c in d.items())
    if not case["userTree"] and norm(spec) != norm(real):
        drift = f"tree differs from spec/ZoneTree.tla for {[s['label'] for s in streams]}"
    return out, dict(drift=drift, clash=len({s["name"] for s in streams}) < n, nested=any("/" in s["label"] for s in streams))


def check(prop, tier, run: Run, replay_case=None):
    if replay_case is not None:
        _init()
        out, _ = replay((replay_case["case"], bool(replay_case["detail"].get("identical_rows", 1) > 1)))
        for clause, d in out:
            run.violation(clause, replay_case["case"], d)
        run.cov["evaluations"] = 1
        return
    run.assumptions += ["labels from a universe built to contain suffix/prefix pairs, the root name and generated unit-operation names (A, A/B, A/B/C, A/O1, A/O3, B, B/A, O1, Site); stream names s, s_2, s",
                        "user trees Site -> {A -> {A1}, B} and Site -> {A -> {B}, B} (a name used at two depths: ambiguous bare labels); two input classes are known findings (carved out by TLA+ predicates KFUnknown / KFNonLeaf)"]
    nontriv = set()
    for name in ("synth", "user", "user2", "user3"):
        res = tlc_cases(name)
        run.add_tlc(res, name)
        if res.violated:
            run.machinery_errors.append(f"Leg M: spec/ZoneTree.tla violates {res.violated} ({name}):\n{res.error_trace[:1500]}")
            continue
        run.cov["exhaustive"] = True
        cases = sorted(res.cases, key=lambda c: json.dumps(c["streams"]))
        carved_total = 0
        twins = [c for c in cases if twin_groups(c)]
        run.notes.setdefault("replayed_with_identical_rows", {})[name] = len(twins)
        jobs = [(c, False) for c in cases] + [(c, True) for c in twins]
        with Pool(16, initializer=_init) as pool:
            for (case, _tw), (out, flags) in zip(jobs, pool.imap(replay, jobs, chunksize=64)):
                run.cov["evaluations"] += 1
                run.cov["traces_validated_against_impl"] += 1
                carved_total += sum(case["carved"])
                for clause, d in out:
                    run.violation(clause, case, d)
                if flags.get("drift"):
                    run.drift.append(flags["drift"])
                if flags.get("nested") or flags.get("clash"):
                    nontriv.add(json.dumps(case["streams"]))
        run.notes.setdefault("carved_streams", {})[name] = carved_total
        for i in range(len(cases)):
            pass
        run.cov["samples"] += [{"config": name, "streams": c["streams"], "zones": [z["path"] for z in c["zones"]]} for c in cases[len(cases) // 2:][:2]]
    # known findings are reported when the real code indeed drops such streams (measured, not assumed)
    _report_known(run)
    run.cov["distinct_nontrivial"] = len(nontriv)
    run.cov["rule"] = ("every sequence of <= 3 streams (label x kind) over the label universe, with and without the user tree, enumerated by TLC; "
                       "non-trivial = a nested label or clashing stream names; distinct by stream list")
    if tier == "thorough":
        res = {}
        for sw in ("SuffixMatch", "NoPrePass"):
            r = tlc_cases("tiny", overrides={sw: True}, emit=False)
            res[sw] = r.violated
            if not r.violated:
                run.machinery_errors.append(f"mutant model {sw} not rejected")
        run.notes["mutant_models"] = res


def _report_known(run: Run):
    """With a user tree, a label naming no zone / a zone with children: the stream is silently dropped (known findings)."""
    _init()
    S = _OP["StreamSchema"]
    for fid, label in (("KF-C10-unknown-label", "C"), ("KF-C10-nonleaf-label", "A")):
        if not any(f["id"] == fid for f in run.findings):
            continue
        sch = [S(zone=label, name="s", t_supply=200.0, t_target=100.0, heat_flow=100.0, dt_cont=5.0, htc=1.0),
               S(zone="B", name="t", t_supply=50.0, t_target=150.0, heat_flow=101.0, dt_cont=5.0, htc=1.0)]
        mz = _OP["prepare"](streams=sch, utilities=[], options={}, project_name="Site",
                            zone_tree=_OP["ZoneTreeSchema"].model_validate(json.loads(json.dumps(USER_TREE))))
        if len(list(mz.hot_streams)) == 0:
            run.known_hits[fid] = run.known_hits.get(fid, 0) + 1
