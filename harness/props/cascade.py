"""C01 / C05 / C06: problem-table cascade, composite curves, pinch temperatures.

Leg M  TLC checks spec/Cascade.tla (implementation-shaped machine vs definitional operators)
Leg R  every case TLC enumerated is replayed into the real code under affine embeddings and
       judged against the definitional values TLC exported (component level and through the service)
Leg T  (trace_cascade.py) hook traces of larger random problems are judged by TLC.
"""
from __future__ import annotations

import json
import math
import os
import random
from multiprocessing import Pool

from ..common import Run, EMBS, E0, E1, E2, E3, E4, Emb, close, repo_import, seed
from ..tlc import run_sharded, run_tlc, write_cfg, MachineryError, SPEC

PROPS = ("C01", "C05", "C06")

BASE = dict(ActStrict=True, ShiftByMin=True, RealOnShifted=False, DoEmit=True)
CFG = {
    "quickA": dict(Temps={0, 100, 200, 300}, CPs={1, 2}, DTCs={0, 50}, LatentCPs=set(), MaxStreams=3,
                   UtilOpts={1}, NZones=1),
    "quickL": dict(Temps={0, 100, 200}, CPs={1, 2}, DTCs={0, 50}, LatentCPs={150}, MaxStreams=3,
                   UtilOpts={1}, NZones=1),
    # streams of zero duty (CP 0) between two temperatures: legal input that contributes rows but no heat
    "quickZ": dict(Temps={0, 100, 200}, CPs={0, 1}, DTCs={0, 50}, LatentCPs=set(), MaxStreams=3,
                   UtilOpts={1}, NZones=1),
    # a dynamic range of a million between the streams of one problem (a plant entered in W next to trim duties): a residual that is
    # tiny against the largest duty is still not a pinch.  Replayed under the exact embeddings only (absolute zero tests at 1e-6
    # cannot be expected to survive rounding noise at 1e8)
    "quickW": dict(Temps={0, 100, 200}, CPs={1, 1000000}, DTCs={0, 50}, LatentCPs=set(), MaxStreams=3,
                   UtilOpts={1}, NZones=1),
    "deepL": dict(Temps={0, 100, 200, 300}, CPs={1, 2}, DTCs={0, 50}, LatentCPs={150}, MaxStreams=3,
                  UtilOpts={0, 1}, NZones=1),
    "quickB": dict(Temps={0, 100, 200}, CPs={1, 2}, DTCs={0, 50}, LatentCPs={150}, MaxStreams=3,
                   UtilOpts={0}, NZones=2),
    "deepA": dict(Temps={0, 100, 200, 300, 400}, CPs={1, 2, 3}, DTCs={0, 50, 100}, LatentCPs={150}, MaxStreams=3,
                  UtilOpts={0, 3}, NZones=1),
    "deepB": dict(Temps={0, 100, 200, 300}, CPs={1, 2}, DTCs={0, 50}, LatentCPs={150}, MaxStreams=3,
                  UtilOpts={0, 1, 2, 3}, NZones=2),
    "deepC": dict(Temps={0, 100, 200}, CPs={1, 2}, DTCs={0, 50}, LatentCPs=set(), MaxStreams=4,
                  UtilOpts={0, 2}, NZones=1),
    "tiny": dict(Temps={0, 100, 200}, CPs={1, 2}, DTCs={0, 50}, LatentCPs={150}, MaxStreams=2,
                 UtilOpts={0, 1}, NZones=1),
}
INVS = ["C01_Targets", "C05_ShiftedCurves", "C05_ShiftedTouchesZero", "C05_Spans", "C05_RealCurves",
        "C05_SameTargetsOnBothTables", "C05_RowWise", "C06_Pinch", "EmitCase"]


BIG = {"deepA": 16}     # configurations whose case export would not fit: model-checked in full, one shard of inputs exported and replayed


def tlc_cases(name, overrides=None, invs=INVS, emit=True, shard=0, nshards=1):
    """One TLC run (16 workers; a PrintT line is atomic) over the whole bounded input space."""
    import tempfile, shutil
    from pathlib import Path
    consts = dict(BASE)
    consts.update(CFG[name])
    if overrides:
        consts.update(overrides)
    consts.update(DoEmit=emit, Shard=shard, NShards=nshards)
    tmp = Path(tempfile.mkdtemp(prefix="tlccfg_"))
    try:
        cfg = tmp / "mc.cfg"
        write_cfg(cfg, spec="Spec", constants=consts, invariants=invs)
        res = run_tlc("Cascade.tla", cfg, workers=16, xmx="8g", env=None,
                      extra=None)
    finally:
        shutil.rmtree(tmp, ignore_errors=True)
    if emit and res.violated is None and len(res.cases) * 5 != res.distinct:
        raise MachineryError(f"case export incomplete: {len(res.cases)} cases for {res.distinct} states")
    res.cases.sort(key=lambda c: json.dumps([c["S"], c["uo"], c["z"]], sort_keys=True))
    return res


# ---------------------------------------------------------------------------
# replay workers (run in pool processes)

_OP = {}


def _init():
    repo_import()
    import numpy as np
    from OpenPinch.classes.stream import Stream
    from OpenPinch.classes.stream_collection import StreamCollection
    from OpenPinch.analysis.problem_table_analysis import (get_process_heat_cascade, set_zonal_targets,
                                                            get_heat_recovery_target_from_pt)
    from OpenPinch.lib.enums import ProblemTableLabel as PT
    _OP.update(np=np, Stream=Stream, SC=StreamCollection, cascade=get_process_heat_cascade,
               targets=set_zonal_targets, hr=get_heat_recovery_target_from_pt, PT=PT)


def make_streams(case, emb: Emb, idx=None):
    """Materialise the lattice streams of a case as OpenPinch Stream objects."""
    Stream, SC = _OP["Stream"], _OP["SC"]
    hot, cold, hu, cu = SC(), SC(), SC(), SC()
    S = case["S"]
    for i, s in enumerate(S):
        if idx is not None and (i + 1) not in idx:
            continue
        lo, hi = s["lo"], s["hi"]
        ts, tt = (hi, lo) if s["k"] == "H" else (lo, hi)
        q = s["cp"] * (hi - lo)
        t_sup = emb.T(ts)
        t_tar = emb.T(tt)
        if emb.native_latent and hi - lo == 1 and s["k"] == "C":
            t_tar = t_sup            # the code's own "supply == target means 0.01 K latent" rule
        st = Stream(name=f"S{i+1}", t_supply=t_sup, t_target=t_tar, heat_flow=emb.Q(q),
                    dt_cont=emb.dT(s["dtc"]), htc=1.0, is_process_stream=True)
        (hot if s["k"] == "H" else cold).add(st)
    for j, u in enumerate(case.get("U", [])):
        lo, hi = u["lo"], u["hi"]
        ts, tt = (hi, lo) if u["k"] == "H" else (lo, hi)
        st = Stream(name=f"U{j+1}", t_supply=emb.T(ts), t_target=emb.T(tt), heat_flow=0.0,
                    dt_cont=emb.dT(u["dtc"]), htc=1.0, is_process_stream=False)
        (hu if u["k"] == "H" else cu).add(st)
    return hot, cold, hu, cu


def pwl(curve, x, col):
    """Evaluate the exported definitional curve (rows [T, hot, cold], T descending) at lattice x."""
    if x >= curve[0][0]:
        return curve[0][col]
    if x <= curve[-1][0]:
        return curve[-1][col]
    for r1, r2 in zip(curve, curve[1:]):
        if r2[0] <= x <= r1[0]:
            return r2[col] + (r1[col] - r2[col]) * (x - r2[0]) / (r1[0] - r2[0])
    raise AssertionError


def replay_retarget(args):
    """C01 on a live Zone that is targeted, given one more stream IN PLACE, and targeted again: the second result must be the
    cascade over the zone's streams as they then are (the case's own expected values; the first over the case minus its last stream
    is not judged here).  Returns (violations, flags)."""
    case, ename = args
    from . import utility as util_mod
    if not util_mod._OP:
        util_mod._init()
    emb = EMBS[ename]
    S = case["S"]
    out = []
    try:
        z = util_mod.build_zone(dict(S=S[:-1], HU=[], CU=[]), emb)
        util_mod._OP["di"](z)
        s = S[-1]
        lo, hi = s["lo"], s["hi"]
        ts, tt = (hi, lo) if s["k"] == "H" else (lo, hi)
        st = util_mod._OP["Stream"](name=f"S{len(S)}", t_supply=emb.T(ts), t_target=emb.T(tt), heat_flow=emb.Q(s["cp"] * (hi - lo)),
                                     dt_cont=emb.dT(s["dtc"]), htc=1.0, is_process_stream=True)
        (z.hot_streams if s["k"] == "H" else z.cold_streams).add(st)
        util_mod._OP["di"](z)
        t = z.targets["Z/Direct Integration"]
    except Exception as e:
        return [("C01.retarget_raises", dict(exc=repr(e)[:300], emb=ename))], {}
    scale = max(1.0, emb.Q(case["totHot"] + case["totCold"]))
    for key, exp in (("hot_utility_target", "Qh"), ("cold_utility_target", "Qc"), ("heat_recovery_target", "Qr")):
        got = float(getattr(t, key))
        if not close(got, emb.Q(case[exp]), scale):
            out.append(("C01." + exp, dict(got=got, expected=emb.Q(case[exp]), emb=ename, after="a stream was added to the targeted zone in place and the zone targeted again")))
    return out, {}


def replay_component(args):
    """One case, one embedding, component level.  Returns (violations, flags)."""
    case, ename = args
    emb = EMBS[ename]
    np, PT = _OP["np"], _OP["PT"]
    out = []
    tot = emb.Q(case["totHot"] + case["totCold"])
    scale = max(1.0, tot)

    def bad(clause, **d):
        out.append((clause, dict(d, emb=ename)))
    try:
        hot, cold, hu, cu = make_streams(case, emb)
        allst = hot + cold + hu + cu
        pt = _OP["cascade"](hot_streams=hot, cold_streams=cold, all_streams=allst, zone_config=None, is_shifted=True)
        ptr = _OP["cascade"](hot_streams=hot, cold_streams=cold, all_streams=allst, zone_config=None, is_shifted=False,
                             known_heat_recovery=_OP["hr"](pt))
        tv = _OP["targets"](pt, ptr)
        hp, cp_ = pt.pinch_temperatures()
    except Exception as e:  # the cascade is total on valid streams
        bad("C14.cascade_raises", exc=repr(e)[:300])
        return out, {}
    # ---- C01
    for key, exp in (("hot_utility_target", "Qh"), ("cold_utility_target", "Qc"), ("heat_recovery_target", "Qr")):
        got = float(tv[key])
        if not close(got, emb.Q(case[exp]), scale):
            bad("C01." + exp, got=got, expected=emb.Q(case[exp]))
    # ---- C05
    for tname, t, curve in (("shifted", pt, case["curveSh"]), ("real", ptr, case["curveRe"])):
        T = t.col[PT.T.value]
        Hh, Hc, Hn = t.col[PT.H_HOT.value], t.col[PT.H_COLD.value], t.col[PT.H_NET.value]
        dT = t.col[PT.DELTA_T.value]
        n = len(T)
        for i in range(n):
            x = emb.untT(float(T[i]))
            eh = emb.Q(pwl(curve, x, 1))
            ec = emb.Q(pwl(curve, x, 2) + case["Qc"])
            if not close(float(Hh[i]), eh, scale):
                bad(f"C05.{tname}.hot_curve", row=i, T=float(T[i]), got=float(Hh[i]), expected=eh); break
            if not close(float(Hc[i]), ec, scale):
                bad(f"C05.{tname}.cold_curve", row=i, T=float(T[i]), got=float(Hc[i]), expected=ec); break
            if not close(float(Hn[i]), float(Hc[i]) - float(Hh[i]), scale):
                bad(f"C05.{tname}.net_is_cold_minus_hot", row=i, got=float(Hn[i])); break
            if tname == "shifted" and float(Hn[i]) < -1e-6 * scale:
                bad("C05.shifted.net_nonnegative", row=i, got=float(Hn[i])); break
            if i > 0:
                if not (T[i - 1] > T[i]):
                    bad(f"C05.{tname}.rows_descending", row=i); break
                if not close(float(dT[i]), float(T[i - 1] - T[i]), 1.0, 1e-7 * max(1.0, emb.b)):
                    bad(f"C05.{tname}.dT_row", row=i, got=float(dT[i]), expected=float(T[i - 1] - T[i])); break
                for cpk, dhk, cumk, sgn in ((PT.CP_HOT.value, PT.DELTA_H_HOT.value, Hh, 1),
                                            (PT.CP_COLD.value, PT.DELTA_H_COLD.value, Hc, 1),
                                            (PT.CP_NET.value, PT.DELTA_H_NET.value, Hn, 1)):
                    cpv, dhv = float(t.loc[i, cpk]), float(t.loc[i, dhk])
                    if not close(dhv, cpv * float(dT[i]), scale):
                        bad(f"C05.{tname}.dH_is_CP_dT", row=i, col=dhk, got=dhv, expected=cpv * float(dT[i])); break
                    if not close(float(cumk[i - 1] - cumk[i]), dhv, scale):
                        bad(f"C05.{tname}.cumulative_is_running_sum", row=i, col=dhk,
                            got=float(cumk[i - 1] - cumk[i]), expected=dhv); break
        if tname == "shifted" and n and not close(float(np.min(Hn)), 0.0, scale):
            bad("C05.shifted.touches_zero", got=float(np.min(Hn)))
        if n:
            if not close(float(Hh[0] - Hh[-1]), emb.Q(case["totHot"]), scale):
                bad(f"C05.{tname}.hot_span", got=float(Hh[0] - Hh[-1]), expected=emb.Q(case["totHot"]))
            if not close(float(Hc[0] - Hc[-1]), emb.Q(case["totCold"]), scale):
                bad(f"C05.{tname}.cold_span", got=float(Hc[0] - Hc[-1]), expected=emb.Q(case["totCold"]))
    for nm, a, b in (("Qh", pt.loc[0, PT.H_NET.value], ptr.loc[0, PT.H_NET.value]),
                     ("Qc", pt.loc[-1, PT.H_NET.value], ptr.loc[-1, PT.H_NET.value]),
                     ("Qr", _OP["hr"](pt), _OP["hr"](ptr))):
        if not close(float(a), float(b), scale):
            bad("C05.same_targets_on_both_tables." + nm, shifted=float(a), real=float(b))
    # ---- C06
    if case["pinchAbsent"]:
        if hp is not None or cp_ is not None:
            bad("C06.absent_expected", got=[hp, cp_])
    else:
        eh, ec = emb.T(case["hotPinch"]), emb.T(case["coldPinch"])
        if hp is None or cp_ is None:
            bad("C06.pinch_missing", expected=[eh, ec])
        else:
            if not close(float(hp), eh, 1.0, 1e-6 * max(1.0, abs(eh))):
                bad("C06.hot_pinch", got=float(hp), expected=eh)
            if not close(float(cp_), ec, 1.0, 1e-6 * max(1.0, abs(ec))):
                bad("C06.cold_pinch", got=float(cp_), expected=ec)
    # drift: implementation-shaped grid rows must be rows of the real table
    drift = None
    Tset = [emb.untT(float(x)) for x in pt.col[PT.T.value]]
    for x in case["implT"]:
        if not any(abs(x - y) < 1e-6 for y in Tset):
            drift = f"grid row {x} of the specification missing in pt"
    flags = dict(pinched=case["Qh"] > 0 and case["Qc"] > 0, threshold=(case["Qh"] == 0) != (case["Qc"] == 0),
                 shifted=any(s["dtc"] > 0 for s in case["S"]), inserted=len(Tset) > len(case["implT"]),
                 multi=len(case["zeros"]) > 1, drift=drift)
    return out, flags


def to_request(case, emb: Emb, with_units=False):
    """The lattice case as a TargetInput dictionary (zones Z1/Z2 per TLC's assignment)."""
    def num(v, u):
        return {"value": v, "units": u} if with_units else v
    streams = []
    for i, s in enumerate(case["S"]):
        lo, hi = s["lo"], s["hi"]
        ts, tt = (hi, lo) if s["k"] == "H" else (lo, hi)
        q = s["cp"] * (hi - lo)
        t_sup, t_tar = emb.T(ts), emb.T(tt)
        if emb.native_latent and hi - lo == 1 and s["k"] == "C":
            t_tar = t_sup
        streams.append(dict(zone=f"Z{case['z'][i]}", name=f"S{i+1}", t_supply=num(t_sup, "degC"), t_target=num(t_tar, "degC"),
                            heat_flow=num(emb.Q(q), "kW"), dt_cont=num(emb.dT(s["dtc"]), "degC"), htc=num(1.0, "kW/m2K")))
    return dict(streams=streams, utilities=[], options={"DT_CONT": emb.dT(50), "DT_PHASE_CHANGE": emb.dT(10)})


def _init_service():
    repo_import()
    from OpenPinch import pinch_analysis_service
    from OpenPinch.analysis import graph_data
    _OP.update(service=pinch_analysis_service, graph_data=graph_data)


def replay_service(args):
    case, ename = args
    emb = EMBS[ename]
    out = []

    def bad(clause, **d):
        out.append((clause, dict(d, emb=ename, level="service")))
    try:
        res = _OP["service"](to_request(case, emb), project_name="Site")
    except Exception as e:
        bad("C14.service_raises", exc=repr(e)[:300])
        return out, {}
    recs = {t.name: t for t in res.targets}
    want = {"Site": case}
    for k, zr in enumerate(case["zones"]):
        want[f"Z{case['z'][zr['idx'][0] - 1]}"] = zr
    for zname, exp in want.items():
        r = recs.get(f"{zname}/Direct Integration")
        if r is None:
            bad("C01.record_missing", zone=zname, have=sorted(recs))
            continue
        scale = max(1.0, emb.Q(exp["totHot"] + exp["totCold"]))
        for k in ("Qh", "Qc", "Qr"):
            if not close(float(getattr(r, k)), emb.Q(exp[k]), scale):
                bad("C01." + k, zone=zname, got=float(getattr(r, k)), expected=emb.Q(exp[k]))
        ct, ht = r.temp_pinch.cold_temp, r.temp_pinch.hot_temp
        if ht is None:
            ht = ct
        if exp["pinchAbsent"]:
            if ct is not None:
                bad("C06.absent_expected", zone=zname, got=[ht, ct])
        else:
            eh, ec = emb.T(exp["hotPinch"]), emb.T(exp["coldPinch"])
            if ct is None:
                bad("C06.pinch_missing", zone=zname, expected=[eh, ec])
            else:
                if not close(float(ht), eh, 1.0, 1e-6 * max(1.0, abs(eh))):
                    bad("C06.hot_pinch", zone=zname, got=float(ht), expected=eh)
                if not close(float(ct), ec, 1.0, 1e-6 * max(1.0, abs(ec))):
                    bad("C06.cold_pinch", zone=zname, got=float(ct), expected=ec)
    return out, dict(zones=len(case["zones"]))


def mutant_selftest(run: Run):
    """The invariants must reject deliberately wrong variants of the implementation-shaped actions."""
    results = {}
    for sw, val, expect in (("ActStrict", False, None), ("ShiftByMin", False, "C01_Targets"),
                            ("RealOnShifted", True, "C05_RealCurves")):
        r = tlc_cases("tiny", overrides={sw: val}, emit=False)
        results[f"{sw}={val}"] = r.violated
        if r.violated is None and expect is not None:
            run.machinery_errors.append(f"mutant model {sw}={val} was not rejected by TLC")
    run.notes["mutant_models"] = results


def check(prop: str, tier: str, run: Run, replay_case=None):
    rnd = random.Random(seed())
    pre = prop + "."
    embs3 = [E0.name, E1.name, E2.name]
    if replay_case is not None:
        if replay_case.get("leg") == "T":
            from . import trace_pipeline
            return trace_pipeline.replay(run, replay_case)
        _init(); _init_service()
        fn = replay_service if replay_case["detail"].get("level") == "service" else replay_component
        out, _ = fn((replay_case["case"], replay_case["detail"]["emb"]))
        for clause, d in out:
            if clause.startswith(pre):
                run.violation(clause, replay_case["case"], d)
        run.cov["evaluations"] = 1
        return
    names = ["quickA", "quickL", "quickB", "quickZ", "quickW"] if tier == "quick" else ["deepL", "quickB", "quickZ", "quickW", "deepA", "deepB", "deepC"]
    run.assumptions += [
        "lattice inputs: temperatures multiples of 1 unit, tolerance windows of the code coincide with exact comparisons (DESIGN 3)",
        "TLC's evaluation of the definitional operators in spec/Cascade.tla is the oracle",
    ]
    nontriv = set()
    seen_samples = 0
    for name in names:
        if name in BIG:
            full = tlc_cases(name, emit=False)          # Leg M on the whole input space
            run.add_tlc(full, name + " (model check, no export)")
            if full.violated:
                run.machinery_errors.append(f"Leg M: spec/Cascade.tla violates {full.violated} in config {name}:\n{full.error_trace[:1500]}")
                continue
            res = tlc_cases(name, shard=seed() % BIG[name], nshards=BIG[name])      # Leg R on one shard of it (index sum mod n)
        else:
            res = tlc_cases(name)
        run.add_tlc(res, name)
        if res.violated:
            # design-level counterexample: the specification itself violates the property
            run.machinery_errors.append(f"Leg M: spec/Cascade.tla violates {res.violated} in config {name}:\n{res.error_trace[:1500]}")
            continue
        cases = res.cases
        run.cov["exhaustive"] = True
        service_level = CFG[name]["NZones"] > 1
        embs = embs3 + [E4.name] if CFG[name]["LatentCPs"] else embs3      # latent streams also at 1500 degrees
        if service_level:
            # full service is ~40 ms per call: deterministic sample, all multi-zone shapes kept in rotation
            from ..common import sample
            jobs = [(c, embs[i % len(embs)]) for i, c in enumerate(sample(cases, 1500 if tier == "quick" else 12000, 1))]
            fn, init = replay_service, _init_service
        else:
            if name == "quickW":
                jobs = [(c, (E0.name, E1.name)[(i + seed()) % 2]) for i, c in enumerate(cases)]
            elif tier == "quick":
                jobs = [(c, embs[(i + seed()) % len(embs)]) for i, c in enumerate(cases)]
            else:
                jobs = [(c, e) for c in cases for e in embs]
            fn, init = replay_component, _init
        with Pool(16, initializer=init) as pool:
            for (case, ename), (out, flags) in zip(jobs, pool.imap(fn, jobs, chunksize=64)):
                run.cov["evaluations"] += 1
                run.cov["traces_validated_against_impl"] += 1
                for clause, d in out:
                    if clause.startswith(pre) or (clause.startswith("C14.") and prop == "C01"):
                        run.violation(clause if clause.startswith(pre) else prop + "." + clause, case, d)
                if flags.get("drift"):
                    run.drift.append(flags["drift"])
                key = json.dumps([case["S"], case["uo"], case["z"]], sort_keys=True)
                nt = {"C01": flags.get("pinched") or flags.get("threshold") or flags.get("zones", 0) > 1,
                      "C05": flags.get("shifted") or flags.get("inserted"),
                      "C06": flags.get("multi") or flags.get("threshold") or flags.get("zones", 0) > 1}[prop]
                if nt:
                    nontriv.add(key)
                if seen_samples < 4 and nt and rnd.random() < 0.001:
                    seen_samples += 1
                    run.cov["samples"].append({"config": name, "embedding": ename, "streams": case["S"], "zones": case["z"],
                                               "expected": {k: case[k] for k in ("Qh", "Qc", "Qr", "pinchAbsent", "hotPinch", "coldPinch")}})
        if prop == "C01" and not service_level and name in ("quickA", "deepL", "quickZ"):
            from ..common import sample as _sample
            multi = [c for c in cases if len(c["S"]) >= 2 and all(x["hi"] - x["lo"] > 1 for x in c["S"])]
            rj = [(c, embs3[i % 3]) for i, c in enumerate(_sample(multi, 1500 if tier == "quick" else 15000, 21))]
            with Pool(16, initializer=_init) as pool:
                for (case, ename), (out, _) in zip(rj, pool.imap(replay_retarget, rj, chunksize=32)):
                    run.cov["evaluations"] += 1
                    run.cov["traces_validated_against_impl"] += 1
                    for clause, d in out:
                        run.violation(clause, case, d)
        if not run.cov["samples"] and cases:
            c = cases[len(cases) // 2]
            run.cov["samples"].append({"config": name, "streams": c["S"], "zones": c["z"],
                                       "expected": {k: c[k] for k in ("Qh", "Qc", "Qr", "pinchAbsent", "hotPinch", "coldPinch")}})
    run.cov["distinct_nontrivial"] = len(nontriv)
    run.cov["rule"] = {
        "C01": "every multiset of <= MaxStreams lattice streams (x utility ladders x zone assignments) enumerated by TLC; "
               "non-trivial = pinched (Qh>0 and Qc>0), threshold, or multi-zone; distinct by (streams, ladder, zones)",
        "C05": "as C01; non-trivial = some stream has a non-zero contribution (scales differ) or rows were inserted after the cascade",
        "C06": "as C01; non-trivial = several zero breakpoints, a threshold problem, or multi-zone",
    }[prop]
    from . import trace_pipeline
    trace_pipeline.leg_t(run, prop, tier)
    if tier == "thorough":
        mutant_selftest(run)
