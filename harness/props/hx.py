"""C20: effectiveness-NTU and LMTD relations.

Leg M  spec/HeatExchanger.tla part 1: the arrangement dispatch as a machine, both label forms, both functions
Leg T  the real HX_Eff / HX_NTU / compute_LMTD_* are evaluated on a grid; TLC (part 2) judges the recorded values
       in fixed point against relational axioms and closed forms over an exp table it verifies itself
"""
from __future__ import annotations

import json
import math
import shutil
import tempfile
from pathlib import Path

from ..common import Run, repo_import, seed
from ..tlc import run_tlc, write_cfg, MachineryError

ARR = ["CF", "PF", "CrFUU", "CrFMM", "CrFMUmax", "CrFMUmin", "ShellTube", "CondEvap"]
M = 1_000_000


def _tlc(consts, invs=(), post=None, env=None):
    tmp = Path(tempfile.mkdtemp(prefix="tlccfg_"))
    try:
        cfg = tmp / "mc.cfg"
        write_cfg(cfg, spec="Spec", constants=consts, invariants=invs, postcondition=post)
        return run_tlc("HeatExchanger.tla", cfg, workers=1, xmx="2g", env=env)
    finally:
        shutil.rmtree(tmp, ignore_errors=True)


def reachable(arr, ntu, c):
    """NTU values the arrangement can represent (its effectiveness saturates below 1 otherwise the inverse is ill-conditioned)."""
    return ntu <= 6.0


def build_trace(tier):
    import random
    rnd = random.Random(20 + seed())
    repo_import()
    from OpenPinch.utils.heat_exchanger import HX_Eff, HX_NTU, compute_LMTD_from_dts, compute_LMTD_from_ts
    from OpenPinch.lib import HeatExchangerTypes as HX
    n4s = list(range(1, 41)) if tier == "thorough" else [1, 2, 3, 4, 6, 8, 10, 12, 16, 20, 28, 40]
    passes = [1, 2, 3, 4]
    series = []
    sid = 0
    n_off = 12 if tier == "thorough" else 3
    for a in ARR:
        member = getattr(HX, a)
        # lattice capacity ratios (closed forms apply) and seeded off-lattice ones (c4 = -1: relational clauses only)
        cs = [(c4, c4 / 4.0) for c4 in (range(0, 5) if a != "CondEvap" else [0])]     # condensing / evaporating: c = 0 by definition
        if a != "CondEvap":
            cs += [(-1, round(rnd.uniform(0.01, 0.999), 4)) for _ in range(n_off)]
            # capacity ratios that are positive but vanishing (a phase change entered with a huge finite CP): still inside [0, 1], and equal
            # to the c = 0 limit to far below every tolerance used here, so they are judged as lattice value c4 = 0
            cs += [(0, 1e-17), (0, 1e-9)]
        for c4, c in cs:
            for P in passes:
                if c4 < 0:      # off-lattice NTU as well: an increasing random sequence in (0, 10]
                    ntus = sorted({round(rnd.uniform(0.02, 10.0), 3) for _ in range(len(n4s))})
                else:
                    ntus = [n4 / 4.0 for n4 in n4s]
                effM, effT, backM, backT, cf, reach, effBack = [], [], [], [], [], [], []
                err = None
                for ntu in ntus:
                    try:
                        em = HX_Eff(member, ntu, c, P)
                        et = HX_Eff(member.value, ntu, c, P)
                        cfv = HX_Eff(HX.CF, ntu, c, P)
                        ok = reachable(a, ntu, c) and 0 < em < 0.999
                        bm = HX_NTU(member, em, c, P) if ok else 0.0
                        bt = HX_NTU(member.value, em, c, P) if ok else 0.0
                        eb = HX_Eff(member, bm, c, P) if ok and bm > 0 else 0.0
                    except Exception as e:         # the functions are total on the stated domain (c = 0 included)
                        err = err or f"NTU={ntu} c={c} passes={P}: {e!r}"[:200]
                        em = et = bm = bt = eb = -7.0
                        cfv = 1.0
                        ok = False
                    for lst, v in ((effM, em), (effT, et), (backM, bm), (backT, bt), (cf, cfv), (effBack, eb)):
                        lst.append(int(round(v * M)) if math.isfinite(v) else -9 * M)
                    reach.append(bool(ok))
                sid += 1
                series.append(dict(id=f"{a}|c={c}|passes={P}", arr=a, c4=c4, c=c, passes=P,
                                   n4=(n4s if c4 >= 0 else [0] * len(ntus)), ntuM=[int(round(x * M)) for x in ntus], err=err or "", effM=effM, effT=effT,
                                   backM=backM, backT=backT, cf=cf, reach=reach, effBack=effBack))
    # the finite-row correlations of the both-unmixed cross-flow arrangement (optional arguments Rows and Cmin_Phase of HX_Eff):
    # relational clauses only (range, monotone in NTU, not above counter flow, label-form independence), capacity ratios > 0
    for rows_ in (1, 2, 3, 4, 6):
        for phase in ("Air", "Steam"):
            for c4 in (0, 1, 2, 3, 4):        # c = 0 included: HX_Eff's stated domain does not depend on the optional arguments
                c = c4 / 4.0
                member = HX.CrFUU
                effM, effT, cf, err = [], [], [], None
                for n4 in n4s:
                    ntu = n4 / 4.0
                    try:
                        em = HX_Eff(member, ntu, c, 1, rows_, phase)
                        et = HX_Eff(member.value, ntu, c, 1, rows_, phase)
                        cfv = HX_Eff(HX.CF, ntu, c, 1)
                    except Exception as e:
                        err = err or f"NTU={ntu} c={c} Rows={rows_} Cmin_Phase={phase}: {e!r}"[:200]
                        em = et = -7.0; cfv = 1.0
                    for lst, v in ((effM, em), (effT, et), (cf, cfv)):
                        lst.append(int(round(v * M)) if math.isfinite(v) else -9 * M)
                z = [0] * len(n4s)
                series.append(dict(id=f"CrFUU|rows={rows_}|{phase}|c={c}", arr="CrFUU", c4=(0 if c4 == 0 else -1), c=c, passes=1, n4=(list(n4s) if c4 == 0 else z), ntuM=[int(round(n4 / 4.0 * M)) for n4 in n4s],
                                   err=err or "", effM=effM, effT=effT, backM=z, backT=z, cf=cf, reach=[False] * len(n4s), effBack=z, rows=rows_))
    lm = []
    ds = [-5, 0, 1, 2, 3, 5, 8, 13, 20, 21, 34, 50]
    # sequence forms (the signature is float | list | ndarray for either argument; capital_cost_and_area_targeting passes arrays):
    # the column of all positive differences against d1 -- tied and untied pairs in one call (seed C20e) -- as lists, as arrays, and
    # with d1 as a bare scalar on either side
    import numpy as _np
    pos = [d for d in ds if d > 0]
    forms = {}
    for d1 in pos:
        col = [d2 / 10.0 for d2 in pos]
        calls = (lambda: compute_LMTD_from_dts([d1 / 10.0] * len(pos), col),
                 lambda: compute_LMTD_from_dts(_np.array([d1 / 10.0] * len(pos)), _np.array(col)),
                 lambda: compute_LMTD_from_dts(d1 / 10.0, _np.array(col)),
                 lambda: compute_LMTD_from_dts(col, d1 / 10.0))
        for k, f_ in enumerate(calls):
            try:
                vals = [int(round(float(v) * 100)) for v in _np.asarray(f_(), dtype=float).ravel()]
                if len(vals) != len(pos):
                    vals = [-777] * len(pos)
            except Exception:
                vals = [-777] * len(pos)
            for d2, v in zip(pos, vals):
                forms.setdefault((d1, d2), []).append(v)
    for d1 in ds:
        for d2 in ds:
            refused = False
            L = Ls = 0
            Lt = -1
            try:
                L = int(round(float(compute_LMTD_from_dts(d1 / 10.0, d2 / 10.0)) * 100))
                Ls = int(round(float(compute_LMTD_from_dts(d2 / 10.0, d1 / 10.0)) * 100))
            except ValueError:
                refused = True
            try:    # the same end differences given as four temperatures: hot 100 -> 100 - x, cold (100 - x - d2) -> (100 - d1)
                x = max(d1 - d2, 0) / 10.0 + 3.0
                Lt = int(round(float(compute_LMTD_from_ts(100.0, 100.0 - x, 100.0 - x - d2 / 10.0, 100.0 - d1 / 10.0)) * 100))
            except ValueError:
                Lt = -1
            lm.append(dict(id=f"lmtd|{d1}|{d2}", d1=d1, d2=d2, L=L, Lswap=Ls, Lts=Lt, refused=refused, fine=False, Lforms=forms.get((d1, d2), [])))
    # nearly equal pairs at 1e-6 K resolution (cancellation in (d1 - d2)/ln(d1/d2)); d in micro-kelvin
    base = [1_000_000, 2_500_000, 10_000_000, 20_000_000]
    gaps = [0, 1, 2, 5, 11, 40, 101, 230, 1000, 5003] + ([rnd.randrange(1, 20000) for _ in range(10)] if tier == "thorough" else [])
    for b in base:
        for g in gaps:
            d1, d2 = b, b + g
            L = int(round(float(compute_LMTD_from_dts(d1 / 1e6, d2 / 1e6)) * 1e6))
            Ls = int(round(float(compute_LMTD_from_dts(d2 / 1e6, d1 / 1e6)) * 1e6))
            lm.append(dict(id=f"lmtdfine|{d1}|{d2}", d1=d1, d2=d2, L=L, Lswap=Ls, Lts=L, refused=False, fine=True, Lforms=[]))
    E = [int(round(10000 * math.exp(-k / 16.0))) for k in range(0, 8 * 40 + 2)]
    return dict(E=E, series=series, lmtd=lm)


def kf_crfuu(v, f):
    # the infinite-row series CrossflowUnmixedEff1 only (no Rows argument, or more than four rows)
    return v.case.get("arr") == "CrFUU" and v.clause in ("C20.not_above_counterflow",) and v.case.get("rows", 0) not in (1, 2, 3, 4)


def check(prop, tier, run: Run, replay_case=None):
    run.register_matcher("kf_crfuu", kf_crfuu)
    run.assumptions += ["values transported in fixed point (1e-6); exp table at 1e-4 verified by TLC (semigroup law, Taylor bracket, monotone)",
                        "closed forms checked for counter flow and parallel flow; the other arrangements by relational axioms",
                        "c = 0 is evaluated at exactly 0 for every arrangement"]
    # Leg M: dispatch machine
    r = _tlc(dict(Normalise=True, HasTrace=False), invs=["C20_Dispatch"])
    run.add_tlc(r, "dispatch")
    if r.violated:
        run.machinery_errors.append("spec/HeatExchanger.tla dispatch violates C20_Dispatch")
    if tier == "thorough":
        r2 = _tlc(dict(Normalise=False, HasTrace=False), invs=["C20_Dispatch"])
        run.notes["mutant_models"] = {"Normalise=FALSE": r2.violated}
        if not r2.violated:
            run.machinery_errors.append("mutant model Normalise=FALSE not rejected")
    # Leg T
    data = build_trace(tier)
    tmp = Path(tempfile.mkdtemp(prefix="trace_"))
    try:
        tf = tmp / "hx.json"
        tf.write_text(json.dumps(data))
        res = _tlc(dict(Normalise=True, HasTrace=True), post="TraceAccepted", env={"TRACE_FILE": str(tf)})
    finally:
        shutil.rmtree(tmp, ignore_errors=True)
    run.add_tlc(res, "trace")
    if res.violated:
        raise MachineryError("HX trace not consumed:\n" + res.stdout[-1500:])
    byid = {s["id"]: s for s in data["series"]}
    byid.update({r_["id"]: r_ for r_ in data["lmtd"]})
    n = len(data["series"]) + len(data["lmtd"])
    run.cov["evaluations"] = sum(len(s["n4"]) * 5 for s in data["series"]) + 3 * len(data["lmtd"])
    run.cov["traces_validated_against_impl"] = n
    run.cov["exhaustive"] = True
    for srs in data["series"]:
        if srs["err"]:
            run.violation("C20.defined_on_the_stated_domain", dict(id=srs["id"], arr=srs["arr"]), dict(exc=srs["err"]))
    for tag, obj in res.lines:
        if tag == "VERDICT":
            if byid[obj["id"]].get("err"):
                continue
            for c in obj["fails"]:
                run.violation(c, byid[obj["id"]], dict(id=obj["id"]))
    run.cov["distinct_nontrivial"] = sum(1 for s in data["series"] if s["c4"] > 0) + sum(1 for r_ in data["lmtd"] if r_["d1"] > 0 and r_["d2"] > 0 and r_["d1"] != r_["d2"])
    run.cov["samples"] = [data["series"][17], data["lmtd"][40]]
    run.cov["rule"] = ("grid: 8 arrangements x 2 label forms x NTU = k/4 (k up to 40) x c in {0,1/4,1/2,3/4,1} x passes 1..4, plus seeded off-lattice (c, NTU) series "
                       "judged by the relational clauses only; one trace series per (arrangement, c, passes); LMTD also from four temperatures and for "
                       "nearly equal differences at 1e-6 K; LMTD: 12 x 12 end-difference pairs incl. non-positive, equal and nearly equal; non-trivial = c > 0 series and positive unequal pairs")
