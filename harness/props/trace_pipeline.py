"""Leg T over pipeline hook traces (filled in once the hooks exist)."""
def leg_t(run, prop, tier):
    run.notes["leg_T"] = "not built yet"
def replay(run, rc):
    pass
