"""Leg T over pipeline hook traces: direct-integration targeting of random lattice problems that are an order of
magnitude larger than the exhaustive bounds (4-12 streams on a 20-point lattice, 1-3 zones, isothermal ladders),
recorded by the hooks and judged by TLC with spec/TracePipeline.tla (C01, C03, C04, C05, C06, C07).  The recorded
insert_temperature_interval calls of the same runs are judged by the C08 predicates (positions the pipeline
actually uses: off-centre, several per interval, beyond both ends)."""
from __future__ import annotations

import json
import random
import shutil
import tempfile
from multiprocessing import Pool
from pathlib import Path

from ..common import Run, Emb, repo_import, seed
from ..tlc import run_tlc, write_cfg, MachineryError

K = 100
EMB = Emb("native", 100.0, 0.01, 1.0, True)
_OP = {}


def _init():
    repo_import()
    from OpenPinch import pinch_analysis_service, _verif
    from OpenPinch.lib.enums import ProblemTableLabel as PT
    _OP.update(service=pinch_analysis_service, verif=_verif, PT=PT)
    from . import table as _table
    _table._init()


def random_problem(rnd: random.Random):
    n = rnd.randint(4, 12)
    nz = rnd.randint(1, 3)
    streams = []
    for i in range(n):
        kind = rnd.choice("HC")
        if rnd.random() < 0.1:
            t = 100 * rnd.randint(0, 20)
            lo, hi, cp = (t, t + 1, 100 * rnd.randint(1, 4)) if kind == "C" else (t - 1, t, 100 * rnd.randint(1, 4))
        else:
            a, b = sorted(rnd.sample(range(0, 21), 2))
            lo, hi, cp = 100 * a, 100 * b, rnd.randint(1, 4)
        streams.append(dict(k=kind, lo=lo, hi=hi, cp=cp, dtc=rnd.choice([0, 50, 100]), z=rnd.randint(1, nz)))
    ladder = []
    for j in range(rnd.randint(0, 2)):
        L = 50 * rnd.randint(4, 36)
        ladder.append(dict(name=f"HL{j}", type="Hot", ts=L, tt=L))
    for j in range(rnd.randint(0, 2)):
        L = 50 * rnd.randint(2, 30)
        ladder.append(dict(name=f"CL{j}", type="Cold", ts=L, tt=L))
    # distinct levels only (equal supply temperatures fall back to insertion order)
    seen, lad = set(), []
    for u in ladder:
        if (u["type"], u["ts"]) not in seen:
            seen.add((u["type"], u["ts"])); lad.append(u)
    return dict(S=streams, ladder=lad)


def request(p):
    emb = EMB
    st = []
    for i, s in enumerate(p["S"]):
        ts, tt = (s["hi"], s["lo"]) if s["k"] == "H" else (s["lo"], s["hi"])
        t_sup, t_tar = emb.T(ts), emb.T(tt)
        if s["hi"] - s["lo"] == 1 and s["k"] == "C":
            t_tar = t_sup
        st.append(dict(zone=f"Z{s['z']}", name=f"S{i+1}", t_supply=t_sup, t_target=t_tar, heat_flow=emb.Q(s["cp"] * (s["hi"] - s["lo"])),
                       dt_cont=emb.dT(s["dtc"]), htc=1.0))
    ut = [dict(name=u["name"], type=u["type"], t_supply=emb.T(u["ts"]), t_target=emb.T(u["tt"]), heat_flow=0.0, dt_cont=0.0, htc=1.0, price=1.0)
          for u in p["ladder"]]
    return dict(streams=st, utilities=ut, options={"DT_CONT": emb.dT(50), "DT_PHASE_CHANGE": emb.dT(10)})


def fx(x):
    return int(round(x * K))


def drive(args):
    idx, p = args
    V, PT, emb = _OP["verif"], _OP["PT"], EMB
    V.reset()
    try:
        out, mz = _OP["service"](request(p), project_name="Site", is_return_full_results=True)
    except Exception as e:
        return dict(idx=idx, raises=repr(e)[:300], events=[], inserts=[])
    events, inserts = [], []
    cur = None
    for e in V.EVENTS:
        if e["ev"] == "DI_begin":
            cur = e["zone"]
        elif e["ev"] == "insert" and cur is not None and e["before"] is not None and e["err"] is None:
            inserts.append(e)
        elif e["ev"] == "tables" and e["kind"] == "DI" and cur is not None:
            z = cur
            ci = e["col_index"]
            P, R = e["pt"], e["pt_real"]
            S = []
            for s in list(z.hot_streams) + list(z.cold_streams):
                lo, hi = emb.untT(s.t_min), emb.untT(s.t_max)
                cp = s.CP * emb.b / emb.c
                S.append(dict(k="H" if s.type == "Hot" else "C", lo=int(round(lo * K)), hi=int(round(hi * K)), cp=int(round(cp)),
                              dtc=int(round(s.dt_cont / emb.b * K)), _exact=abs(cp - round(cp)) < 1e-6 and abs(lo - round(lo)) < 1e-6))
            if not S or not all(s.pop("_exact") for s in S):
                continue
            t = z.targets.get(f"{z.name}/Direct Integration")
            if t is None:
                continue
            col = lambda M, k: [fx(emb.untQ(float(v))) for v in M[:, ci[k]]]
            tcol = lambda M: [fx(emb.untT(float(v))) for v in M[:, ci["T"]]]
            hp, cp_ = t.hot_pinch, t.cold_pinch
            has = hp is not None and cp_ is not None
            ev = dict(id=f"{idx}:{z.name}", S=S, tol=2 * sum(s["cp"] for s in S) + 6,
                      T=tcol(P), dT=[fx(float(v) / emb.b) for v in P[:, ci["ΔT"]]], Hhot=col(P, "H_hot"), Hcold=col(P, "H_cold"), Hnet=col(P, "H_net"),
                      NP=col(P, "H_net_np"), UT=col(P, "H_net_ut"), heat=col(P, "H_cold_net"), cool=col(P, "H_hot_net"),
                      Tr=tcol(R), dTr=[fx(float(v) / emb.b) for v in R[:, ci["ΔT"]]], HhotR=col(R, "H_hot"), HcoldR=col(R, "H_cold"), HnetR=col(R, "H_net"),
                      Qh=fx(emb.untQ(t.hot_utility_target)), Qc=fx(emb.untQ(t.cold_utility_target)), Qr=fx(emb.untQ(t.heat_recovery_target)),
                      hasPinch=bool(has), hotPinch=fx(emb.untT(float(hp))) if has else 0, coldPinch=fx(emb.untT(float(cp_))) if has else 0,
                      hu=[fx(emb.untQ(u.heat_flow)) for u in t.hot_utilities], cu=[fx(emb.untQ(u.heat_flow)) for u in t.cold_utilities])
            if max(abs(v) for k_ in ("T", "Hhot", "Hcold", "Hnet", "Tr") for v in ev[k_]) < 20_000_000:
                events.append(ev)
    # C08 on the calls the pipeline really made
    from .table import judge_call
    c08 = []
    class _T:
        pass
    import numpy as np
    for e in inserts:
        b, a = _T(), _T()
        b.data, a.data, b.col_index, a.col_index = e["before"], e["after"], e["col_index"], e["col_index"]
        req = np.atleast_1d(np.asarray(e["req"], float)).tolist()
        hs = [abs(float(x)) for x in np.nan_to_num(e["before"][:, [e["col_index"]["H_hot"], e["col_index"]["H_cold"], e["col_index"]["H_net"]]]).ravel()]
        for clause, d in judge_call(b, a, req, e["ret"], max(1.0, max(hs) if hs else 1.0), 1.0):
            c08.append((clause, dict(d, request=req)))
    return dict(idx=idx, events=events, inserts=len(inserts), c08=c08)


def run_traces(tier):
    rnd = random.Random(seed() * 7919 + 17)
    n = 100 if tier == "quick" else 1500
    probs = [random_problem(rnd) for _ in range(n)]
    with Pool(16, initializer=_init) as pool:
        results = pool.map(drive, list(enumerate(probs)), chunksize=4)
    events = [e for r in results for e in r["events"]]
    tmp = Path(tempfile.mkdtemp(prefix="trace_"))
    verdicts = {}
    tres = None
    try:
        for i in range(0, len(events), 800):
            tf = tmp / f"pipe{i}.json"
            tf.write_text(json.dumps(events[i:i + 800]))
            cfg = tmp / "t.cfg"
            write_cfg(cfg, spec="Spec", constants=dict(Temps={0}, CPs={1}, DTCs={0}, LatentCPs=set(), ActStrict=True, ShiftByMin=True),
                      postcondition="TraceAccepted")
            tres = run_tlc("TracePipeline.tla", cfg, workers=1, xmx="4g", env={"TRACE_FILE": str(tf)})
            if tres.violated:
                raise MachineryError("pipeline trace not consumed:\n" + tres.stdout[-1500:])
            for tag, obj in tres.lines:
                if tag == "VERDICT":
                    verdicts[obj["id"]] = obj["fails"]
    finally:
        shutil.rmtree(tmp, ignore_errors=True)
    return probs, results, events, verdicts, tres


def leg_t(run: Run, prop: str, tier: str):
    probs, results, events, verdicts, tres = run_traces(tier)
    if tres is not None:
        run.add_tlc(tres, "TracePipeline (last batch)")
    pre = prop + "."
    byid = {e["id"]: e for e in events}
    for r in results:
        if "raises" in r and prop in ("C01", "C14"):
            run.violation(prop + ".service_raises", probs[r["idx"]], dict(exc=r["raises"]), leg="T")
        if prop == "C08":
            for clause, d in r.get("c08", []):
                run.violation(clause, probs[r["idx"]], dict(d, in_pipeline=True), leg="T")
    for eid, fails in verdicts.items():
        for c in fails:
            if c.startswith(pre):
                e = byid[eid]
                run.violation(c, dict(problem=probs[int(eid.split(":")[0])], zone=eid.split(":")[1]),
                              dict(streams=e["S"], Qh=e["Qh"], Qc=e["Qc"], rows=len(e["T"])), leg="T")
    run.cov["traces_validated_against_impl"] += len(events) if prop != "C08" else sum(r.get("inserts", 0) for r in results)
    run.cov["evaluations"] += len(events) if prop != "C08" else sum(r.get("inserts", 0) for r in results)
    run.notes["leg_T"] = dict(random_problems=len(probs), zone_events_judged_by_TLC=len(events),
                              in_pipeline_insert_calls=sum(r.get("inserts", 0) for r in results),
                              max_streams_in_a_zone=max((len(e["S"]) for e in events), default=0),
                              max_rows=max((len(e["T"]) for e in events), default=0))


def replay(run: Run, rc):
    _init()
    p = rc["case"].get("problem", rc["case"])
    r = drive((0, p))
    tmp = Path(tempfile.mkdtemp(prefix="trace_"))
    try:
        tf = tmp / "p.json"; tf.write_text(json.dumps(r["events"]))
        cfg = tmp / "t.cfg"
        write_cfg(cfg, spec="Spec", constants=dict(Temps={0}, CPs={1}, DTCs={0}, LatentCPs=set(), ActStrict=True, ShiftByMin=True), postcondition="TraceAccepted")
        tres = run_tlc("TracePipeline.tla", cfg, workers=1, xmx="2g", env={"TRACE_FILE": str(tf)})
    finally:
        shutil.rmtree(tmp, ignore_errors=True)
    for tag, obj in tres.lines:
        if tag == "VERDICT":
            for c in obj["fails"]:
                if c.startswith(run.prop + "."):
                    run.violation(c, rc["case"], dict(event=obj["id"]), leg="T")
    if run.prop == "C08":
        for clause, d in r.get("c08", []):
            run.violation(clause, rc["case"], d, leg="T")
    run.cov["evaluations"] = 1
