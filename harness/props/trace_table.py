"""Leg T for C08 (filled in once the hooks exist)."""
def leg_t(run, tier):
    run.notes["leg_T"] = "not built yet"
def replay(run, rc):
    pass
