"""Leg T over the shipped example problems (OpenPinch/examples/stream_data/p_*.json): realistic magnitudes, dozens of
streams, nested zones, many utility levels, pockets.  Judged by TLC with spec/TraceCorpus.tla (relational clauses of
C02, C03, C09 in fixed point: 1 unit = total duty / 1e7)."""
from __future__ import annotations

import json
import shutil
import tempfile
from multiprocessing import Pool
from pathlib import Path

from ..common import Run, repo_import, REPO
from ..tlc import run_tlc, write_cfg, MachineryError

_OP = {}


def _init():
    repo_import()
    from OpenPinch import pinch_analysis_service
    _OP.update(service=pinch_analysis_service)


def drive(path):
    data = json.load(open(path))
    name = Path(path).stem[2:]
    try:
        out, mz = _OP["service"](data, project_name=name, is_return_full_results=True)
    except Exception as e:
        return dict(id=name, raises=repr(e)[:200])
    zones, index = [], {}

    def walk(z, parent):
        i = len(zones) + 1
        index[id(z)] = i
        zones.append(dict(zone=z, name=z.name, children=[], site=z.identifier == "Site", i=i))
        if parent is not None:
            zones[parent - 1]["children"].append(i)
        for sz in z.subzones.values():
            walk(sz, i)
    walk(mz, None)
    tot = sum(abs(float(s.heat_flow)) for s in list(mz.hot_streams) + list(mz.cold_streams)) or 1.0
    unit = tot / 1e7
    fx = lambda x: int(round(float(x) / unit))
    zrecs = []
    # record names are "<zone name>/<kind>"; equally named zones cannot be told apart -> only uniquely named zones are judged
    names = [z["name"] for z in zones]
    recs = []
    kinds = {"Direct Integration": "DI", "Total Process Target": "TZ", "Total Site Target": "TS"}
    for t in out.targets:
        zn, _, kd = t.name.partition("/")
        if names.count(zn) != 1 or kd not in kinds:
            continue
        zi = names.index(zn) + 1
        val = lambda v: float(getattr(v, "value", v))
        recs.append(dict(zone=zi, kind=kinds[kd], Qh=fx(val(t.Qh)), Qc=fx(val(t.Qc)), Qr=fx(val(t.Qr)),
                         hu=[dict(name=u.name, q=fx(val(u.heat_flow))) for u in t.hot_utilities],
                         cu=[dict(name=u.name, q=fx(val(u.heat_flow))) for u in t.cold_utilities]))
    for z in zones:
        zo = z["zone"]
        # only children that produce a direct-integration record (process zones) take part in the total-process sum
        ch = [c for c in z["children"] if zones[c - 1]["zone"].identifier in ("Process Zone", "Site") and names.count(zones[c - 1]["name"]) == 1]
        zrecs.append(dict(name=z["name"], site=bool(z["site"] and len(ch) == len([c for c in z["children"] if zones[c - 1]["zone"].identifier != "Unit Operation"]) and len(ch) > 0),
                          children=ch, streams=[dict(k="H", q=fx(s.heat_flow)) for s in zo.hot_streams] + [dict(k="C", q=fx(s.heat_flow)) for s in zo.cold_streams]))
    return dict(id=name, zones=zrecs, recs=recs, nstreams=len(data.get("streams", [])), nutil=len(data.get("utilities", [])))


def leg_t(run: Run, prop: str, tier: str):
    files = sorted(str(p) for p in (REPO / "OpenPinch" / "examples" / "stream_data").glob("p_*.json"))
    with Pool(16, initializer=_init) as pool:
        events = pool.map(drive, files)
    good = [e for e in events if "raises" not in e]
    for e in events:
        if "raises" in e and prop == "C14":
            run.violation("C14.service_raises", dict(example=e["id"]), dict(exc=e["raises"]), leg="T")
    tmp = Path(tempfile.mkdtemp(prefix="trace_"))
    try:
        tf = tmp / "corpus.json"
        tf.write_text(json.dumps(good))
        cfg = tmp / "t.cfg"
        write_cfg(cfg, spec="Spec", postcondition="TraceAccepted")
        tres = run_tlc("TraceCorpus.tla", cfg, workers=1, xmx="4g", env={"TRACE_FILE": str(tf)})
    finally:
        shutil.rmtree(tmp, ignore_errors=True)
    if tres.violated:
        raise MachineryError("corpus trace not consumed:\n" + tres.stdout[-1500:])
    run.add_tlc(tres, "TraceCorpus")
    pre = prop + "."
    for tag, obj in tres.lines:
        if tag == "VERDICT":
            for c in obj["fails"]:
                if c.startswith(pre):
                    run.violation(c, dict(example=obj["id"]), dict(leg="T", corpus=True), leg="T")
    run.cov["traces_validated_against_impl"] += len(good)
    run.cov["evaluations"] += sum(len(e["recs"]) for e in good)
    run.notes["corpus"] = dict(examples=len(good), records=sum(len(e["recs"]) for e in good), max_streams=max(e["nstreams"] for e in good),
                               max_utilities=max(e["nutil"] for e in good), zones=sum(len(e["zones"]) for e in good))
