"""C15, mechanism level: the temperature-driving-force decomposition (spec/DrivingForce.tla).

Leg M  TLC checks the step machine transcribed from get_temperature_driving_forces / interp_with_plateaus /
       make_monotonic against the definitional one-sided curve inverses on every pair of balanced curves of
       <= MaxSteps segments (vertical jumps, isothermal segments, both orientations, offset cold curve)
Leg R  every enumerated pair is replayed into the real function under three embeddings and judged against the
       definitional values TLC exported: grid, interval duties, the four end temperatures, both end differences
       (with and without a minimum approach), refusal of unbalanced curves
"""
from __future__ import annotations

import shutil
import tempfile
from pathlib import Path

import numpy as np

from ..common import Run, sample
from ..tlc import run_tlc, write_cfg

CONSTS = dict(MaxSteps=3, StepOpt=0, HotBases={1, 3}, Offsets={0, 5}, SwapSides=False, BlockPlain=False, DoEmit=False)
INVS = ["DF_Normalised", "DF_GridSpansTheDuty", "DF_Temperatures", "DF_EndDifferences", "DF_OnlyShortens"]
# (name, a, b, c, exact): T = a + b t, H = c h; `exact`: c h and c (h + offset) are exact to 6 decimals
EMBS = [("unit", 0.0, 1.0, 1.0, True), ("coarse", 20.0, 10.0, 100.0, True), ("noisy", 0.1 + 0.2, 0.7, 1.0 / 3.0, False)]


def _tlc(consts, invs, workers=16):
    tmp = Path(tempfile.mkdtemp(prefix="tlccfg_"))
    try:
        cfg = tmp / "mc.cfg"
        write_cfg(cfg, spec="Spec", constants=consts, invariants=invs)
        return run_tlc("DrivingForce.tla", cfg, workers=workers, xmx="4g")
    finally:
        shutil.rmtree(tmp, ignore_errors=True)


def _q(r):
    return r[0] / r[1]


def judge(case, fn, emb, run: Run, min_dt=0.0):
    name, a, b, c, exact = emb
    off = case["cold"][0][0] if case["cold"][0][0] <= case["cold"][-1][0] else case["cold"][-1][0]
    if off and not exact:
        return 0
    Th = [a + b * t for _, t in case["hot"]]
    Hh = [c * h for h, _ in case["hot"]]
    Tc = [a + b * t for _, t in case["cold"]]
    Hc = [c * h for h, _ in case["cold"]]
    cs = dict(input=case, emb=name, min_dT=min_dt, gap=False)
    try:
        out = fn(np.array(Th), np.array(Hh), np.array(Tc), np.array(Hc), min_dt)
    except Exception as e:                                     # balanced curves are in the stated domain
        run.violation("C15.area_tdf_raises", cs, dict(exc=repr(e)[:200]))
        return 1
    n = len(case["grid"]) - 1
    tolT = 1e-5 * max(1.0, b / c) * max(1.0, b)
    tolH = 1e-6 * max(1.0, c)
    g = np.asarray(out["h_vals"], float)
    if len(g) != n + 1 or any(abs(g[k] - c * case["grid"][k]) > tolH for k in range(n + 1)):
        run.violation("C15.area_tdf_grid", cs, dict(got=list(map(float, g)), expected=[c * x for x in case["grid"]]))
        return 1
    dh = np.asarray(out["dh_vals"], float)
    if abs(dh.sum() - c * case["grid"][-1]) > tolH * (n + 1) or any(abs(dh[k] - c * (case["grid"][k + 1] - case["grid"][k])) > tolH for k in range(n)):
        run.violation("C15.area_tdf_interval_duties_sum_to_span", cs, dict(got=list(map(float, dh))))
    for key in ("th1", "th2", "tc1", "tc2"):
        got = np.asarray(out["t_" + key[1] + key[2]], float)
        exp = [a + b * _q(r) for r in case[key]]
        bad = [k for k in range(n) if abs(got[k] - exp[k]) > tolT]
        if bad:
            run.violation("C15.area_tdf_end_temperature." + key, cs, dict(interval=bad[0], got=float(got[bad[0]]), expected=exp[bad[0]]))
    d1 = np.asarray(out["delta_T1"], float)
    d2 = np.asarray(out["delta_T2"], float)
    for k in range(n):
        e1 = b * (_q(case["th1"][k]) - _q(case["tc1"][k])) - min_dt
        if abs(d1[k] - e1) > 2 * tolT:
            run.violation("C15.area_tdf_end_difference.start", cs, dict(interval=k, got=float(d1[k]), expected=e1))
        e2 = b * (_q(case["th2"][k]) - _q(case["tc2"][k])) - min_dt
        if abs(d2[k] - e2) > 2 * tolT:
            shortened = b * _q(case["implD2"][k]) - min_dt
            known = bool(case["kf"][k]) and abs(d2[k] - shortened) <= 2 * tolT
            run.violation("C15.area_tdf_end_difference.end", dict(cs, gap=known), dict(interval=k, got=float(d2[k]), expected=e2, code_shaped=shortened))
    return 1


def check_part(run: Run, tier: str, replay_case=None):
    from OpenPinch.analysis.temperature_driving_force import get_temperature_driving_forces as fn
    consts = dict(CONSTS)
    if tier != "quick":
        consts.update(StepOpt=1, HotBases={1, 4})
    r = _tlc(dict(consts, DoEmit=True), INVS + ["EmitCase"])
    run.add_tlc(r, "DrivingForce")
    if r.violated:
        run.machinery_errors.append(f"spec/DrivingForce.tla violates {r.violated}")
        return
    cases = r.cases
    if tier != "quick":
        cases = sample(cases, 60000, 151)
    if replay_case is not None and "hot" in replay_case["case"].get("input", {}):
        cases = [replay_case["case"]["input"]]
    n = 0
    for case in cases:
        for emb in EMBS:
            n += judge(case, fn, emb, run)
        n += judge(case, fn, EMBS[1], run, min_dt=2.5)
        # an unbalanced pair (cold curve stretched by one unit of duty) must be refused, not decomposed
        cold = [[h * 2, t] for h, t in case["cold"]]
        try:
            fn(np.array([float(t) for _, t in case["hot"]]), np.array([float(h) for h, _ in case["hot"]]),
               np.array([float(t) for _, t in cold]), np.array([float(h) for h, _ in cold]))
            run.violation("C15.area_tdf_unbalanced_refused", dict(input=case, gap=False), dict(cold=cold))
        except ValueError:
            pass
    run.cov["evaluations"] += n
    run.cov["traces_validated_against_impl"] += len(cases)
    run.notes["tdf"] = dict(pairs=len(cases), evaluations=n, with_discontinuity=sum(1 for c in cases if any(c["kf"])))
    # self-tests: the strict variant must be violated (KF class non-empty); mutants must be rejected (thorough)
    s = _tlc(consts, ["DF_Strict"])
    run.add_tlc(s, "DrivingForce strict (must be violated)")
    if not s.violated:
        run.machinery_errors.append("DF_Strict holds: the KF-C15-gap class is empty in the model")
    if tier != "quick":
        for m in ("SwapSides", "BlockPlain"):
            mr = _tlc(dict(CONSTS, **{m: True}), INVS)
            run.add_tlc(mr, f"mutant {m}")
            run.notes.setdefault("mutants", {})[m] = mr.violated
            if not mr.violated:
                run.machinery_errors.append(f"mutant {m} of DrivingForce.tla not rejected")
