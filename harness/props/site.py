"""Service-level properties decided by trace validation: C02, C09, C12, C14 (and, as by-products on the same
traces, the service-level clauses of C01, C03, C06).

generator  spec/SiteGen.tla: TLC enumerates every small site problem (streams x zones x request ladder) and its
           equivalent descriptions under the C12 transformation group
driver     the real pinch_analysis_service is run on every description (hooks on)
judge      spec/TraceSite.tla: TLC recomputes the definitional targets of every zone from the streams and checks
           the balance / additivity / bracketing / invariance / envelope clauses on the recorded outputs
"""
from __future__ import annotations

import json
import math
import os
import shutil
import tempfile
from multiprocessing import Pool
from pathlib import Path

from ..common import Run, Emb, repo_import, seed, sample
from ..tlc import run_tlc, write_cfg, MachineryError

PROPS = ("C02", "C09", "C12", "C14")
K = 10000
BASE = dict(ActStrict=True, ShiftByMin=True, LatentCPs=set(), DoEmit=True, Shard=0, NShards=1)
DEEP_SHARDS = 64          # deep3 has about a million inputs (each exported with ~10 descriptions): one shard of 64 by VERIF_SEED
CFG = {
    "quick2": dict(Temps={0, 100, 200}, CPs={1, 2}, DTCs={0, 50}, MaxStreams=2, NZones=2, Ladders={0, 1, 2, 3, 4, 6, 7, 8, 9, 10}),
    "quick3": dict(Temps={0, 100, 200}, CPs={1, 2}, DTCs={0, 50}, MaxStreams=3, NZones=2, Ladders={0, 1, 2, 4, 9}),
    # one zone, a cold utility with a large contribution of its own (ladder 11): used by C03 only (known finding KF-C03-cold-utility-contribution)
    "cusign": dict(Temps={0, 100, 200}, CPs={1, 2}, DTCs={0, 50}, MaxStreams=2, NZones=1, Ladders={11}),
    "near": dict(Temps={120, 130, 140}, CPs={1, 2}, DTCs={0}, MaxStreams=2, NZones=2, Ladders={5}),
    # isothermal (latent) streams: 1-unit wide in the specification, passed with supply == target where the code's own rule applies
    "latent": dict(Temps={0, 100, 200}, CPs={1}, DTCs={0, 50}, LatentCPs={150}, MaxStreams=2, NZones=2, Ladders={0, 2}),
    "deep3": dict(Temps={0, 100, 200, 300}, CPs={1, 2}, DTCs={0, 50}, MaxStreams=3, NZones=3, Ladders={0, 1, 2, 3, 4, 6, 7, 8, 9, 10}),
}
EMB_BASE = Emb("native", 100.0, 0.01, 1.0, True)
EMB_SHIFT = Emb("native-101.5K", -1.5, 0.01, 1.0, True)   # lattice 150 (a ladder level / stream bound) maps to exactly 0.0
EMB_SCALE = Emb("native*3.7", 100.0, 0.01, 3.7, True)


def gen_cases(name):
    consts = dict(BASE); consts.update(CFG[name])
    if name == "deep3":
        from ..common import seed
        consts.update(Shard=seed() % DEEP_SHARDS, NShards=DEEP_SHARDS)
    tmp = Path(tempfile.mkdtemp(prefix="tlccfg_"))
    try:
        cfg = tmp / "mc.cfg"
        write_cfg(cfg, spec="Spec", constants=consts, invariants=["EmitCase"])
        res = run_tlc("SiteGen.tla", cfg, workers=8, xmx="4g")
    finally:
        shutil.rmtree(tmp, ignore_errors=True)
    res.cases.sort(key=lambda c: json.dumps([c["S"], c["z"], c["lo"]], sort_keys=True))
    return res


_OP = {}


def _init():
    repo_import()
    from OpenPinch import pinch_analysis_service
    _OP.update(service=pinch_analysis_service)


def zlabel(k, nest):
    if nest in ("community", "region"):
        return f"Site/Z{k}"
    if nest == "subsite":
        return "North/Z1" if k == 1 else f"Z{k}"          # zone 1 lives in a site inside the site
    if nest == "dup":
        return f"A{k}/X"           # every zone k becomes area A<k> with one sub-zone, and all sub-zones share the name X
    return f"Z{k}/U{k}/V{k}" if (nest is True and k == 2) else f"Z{k}"


def zone_tree_for(z, nest):
    """explicit zone trees of the descriptions "tree" (flat) and "subsite" (a site inside the site)"""
    zs = sorted(set(z))
    leaf = lambda k: dict(name=f"Z{k}", type="Process Zone", children=None)
    if nest == "community":
        return dict(name="Town", type="Community", children=[dict(name="Site", type="Site", children=[leaf(k) for k in zs])])
    if nest == "region":
        return dict(name="Land", type="Region", children=[dict(name="Site", type="Site", children=[leaf(k) for k in zs])])
    if nest == "subsite":
        kids = [dict(name="North", type="Site", children=[leaf(1)])] + [leaf(k) for k in zs if k != 1]
    else:
        kids = [leaf(k) for k in zs]
        if nest == "treerev":
            kids = kids[::-1]
    return dict(name="Site", type="Site", children=kids)


def request(S, z, ladder, emb: Emb, with_units=False, nest=False, twin=0):
    def num(v, u):
        return {"value": v, "units": u} if with_units else v
    streams = []
    for i, s in enumerate(S):
        lo, hi = s["lo"], s["hi"]
        ts, tt = (hi, lo) if s["k"] == "H" else (lo, hi)
        t_sup, t_tar = emb.T(ts), emb.T(tt)
        if emb.native_latent and hi - lo == 1 and s["k"] == "C":
            t_tar = t_sup            # an isothermal stream: the code's own "supply == target means a 0.01 K latent stream" rule
        name = f"S{i}" if (twin and i == twin) else f"S{i+1}"       # the second of two identical parallel branches repeats the first one's row
        if twin and i == twin + 1:
            name = f"S{twin}_2"          # ... and the stream after them bears the name a renamed duplicate would like to take
        streams.append(dict(zone=zlabel(z[i], nest), name=name, t_supply=num(t_sup, "degC"), t_target=num(t_tar, "degC"),
                            heat_flow=num(emb.Q(s["cp"] * (hi - lo)), "kW"), dt_cont=num(emb.dT(s["dtc"]), "degC"), htc=num(1.0, "kW/m2K")))
    # a declared (installed) duty on the utility is legal input and must not influence targeting; inactive utilities must be ignored
    utils = [dict(name=u["name"], type=u["type"], t_supply=num(emb.T(u["ts"]), "degC"), t_target=num(emb.T(u["tt"]), "degC"),
                  heat_flow=num(emb.Q(70.0), "kW"), dt_cont=num(emb.dT(u.get("dtc", 0)), "degC"), htc=num(1.0, "kW/m2K"), price=num(1.0, "$/MWh"),
                  active=bool(u.get("active", True))) for u in ladder]
    req = dict(streams=streams, utilities=utils, options={"DT_CONT": emb.dT(50), "DT_PHASE_CHANGE": emb.dT(10)})
    if nest in ("tree", "treerev", "subsite", "community", "region"):
        req["zone_tree"] = zone_tree_for(z, nest)
    if nest == "twinobj" and twin:
        # a validated request model in which the two identical branches are one and the same schema object
        from OpenPinch.lib.schema import TargetInput, StreamSchema, UtilitySchema
        objs = [StreamSchema(**d) for d in streams]
        objs[twin] = objs[twin - 1]
        req = TargetInput(streams=objs, utilities=[UtilitySchema(**u) for u in utils], options=req["options"])
    if nest == "ops":
        req["options"]["DO_DIRECT_OPERATION_TARGETING"] = True
    return req


def fx(x):
    return int(round(x * K))


def project(out, emb: Emb, nest=False):
    """TargetOutput -> list of abstract records in fixed point lattice units."""
    recs = []
    for t in out.targets:
        zname, _, kind = t.name.partition("/")
        kind = {"Direct Integration": "DI", "Total Process Target": "TZ", "Total Site Target": "TS"}.get(kind, kind)
        zone = 0 if zname == "Site" else int(zname[1:]) if zname[:1] in "ZVA" and zname[1:].isdigit() else -1
        if nest is True and zname == "Z2":
            zone = -1          # intermediate zone of the nested description (the leaf V2 plays zone 2)
        ct, ht = t.temp_pinch.cold_temp, t.temp_pinch.hot_temp
        if ht is None:
            ht = ct
        has = ct is not None
        vals = [t.Qh, t.Qc, t.Qr] + [u.heat_flow for u in t.hot_utilities + t.cold_utilities] + ([ct, ht] if has else [])
        if not all(isinstance(v, (int, float)) and math.isfinite(v) for v in vals):
            return None
        recs.append(dict(name=t.name, kind=kind, zone=zone, Qh=fx(emb.untQ(t.Qh)), Qc=fx(emb.untQ(t.Qc)), Qr=fx(emb.untQ(t.Qr)),
                         hu=[dict(name=u.name, q=fx(emb.untQ(u.heat_flow))) for u in t.hot_utilities],
                         cu=[dict(name=u.name, q=fx(emb.untQ(u.heat_flow))) for u in t.cold_utilities],
                         hasPinch=bool(has), hotPinch=fx(emb.untT(ht)) if has else 0, coldPinch=fx(emb.untT(ct)) if has else 0))
    return recs


def graph_signature(out, emb: Emb):
    """graph data in lattice units: {"<kind>|<zone>|<graph type>": [polyline, ...]} (x = enthalpy, y = temperature)"""
    sig = {}
    for name, gs in (out.graphs or {}).items():
        zname, _, kind = name.partition("/")
        zone = 0 if zname == "Site" else int(zname[1:]) if zname[:1] == "Z" and zname[1:].isdigit() else -1
        for gr in gs.graphs:
            segs = [[(emb.untQ(p.x), emb.untT(p.y)) for p in sg.data_points] for sg in gr.segments]
            sig.setdefault(f"{kind}|{zone}|{gr.type}", []).extend([sg for sg in segs if sg])
    return sig


def _near_polylines(p, polys, tx, ty):
    """is point p within (tx, ty) of some segment of some polyline (box-scaled euclidean distance <= 1)?"""
    px, py = p[0] / tx, p[1] / ty
    for poly in polys:
        pts = [(x / tx, y / ty) for x, y in poly]
        if len(pts) == 1:
            pts = pts * 2
        for (x1, y1), (x2, y2) in zip(pts, pts[1:]):
            dx, dy = x2 - x1, y2 - y1
            L2 = dx * dx + dy * dy
            t = 0.0 if L2 == 0 else max(0.0, min(1.0, ((px - x1) * dx + (py - y1) * dy) / L2))
            if (px - x1 - t * dx) ** 2 + (py - y1 - t * dy) ** 2 <= 1.0:
                return True
    return False


def graphs_differ(base_sig, var_sig, g, emb_b: Emb, emb_v: Emb):
    """C12 for graph data: every curve of the variant run is the base run's curve (as a set of points of the plane, to display
    rounding), record by record and graph type by graph type.  Returns a description of the first difference or None."""
    zmap = (lambda k: {1: 2, 2: 1}.get(k, k)) if g == "zoneswap" else (lambda k: k)
    tx = 3 * 0.01 / min(emb_b.c, emb_v.c) + 1e-6        # three display roundings (0.01) in lattice duty units
    ty = 3 * 0.01 / min(emb_b.b, emb_v.b) + 1e-6
    keys_b = set(base_sig)
    keys_v = set()
    for k in var_sig:
        kind, zone, gt = k.split("|")
        keys_v.add(f"{kind}|{zmap(int(zone))}|{gt}")
    if keys_b != keys_v:
        return dict(reason="different graph sets", only_base=sorted(keys_b - keys_v)[:4], only_variant=sorted(keys_v - keys_b)[:4])
    for k in sorted(var_sig):
        kind, zone, gt = k.split("|")
        kb = f"{kind}|{zmap(int(zone))}|{gt}"
        A, B = base_sig[kb], var_sig[k]
        for P, Q, who in ((A, B, "base"), (B, A, "variant")):
            for poly in P:
                for p in poly:
                    if not _near_polylines(p, Q, tx, ty):
                        return dict(reason=f"a point of the {who} curve is not on the other", graph=kb, point=[round(p[0], 3), round(p[1], 3)])
    return None


def one_run(g, S, z, ladder, emb, extra_checks, twin=0):
    run = dict(g=g, S=S, z=z, recs=[], err="", dtDefault=60, py=[])
    try:
        nest = g if g in ("dup", "tree", "treerev", "subsite", "community", "region", "ops", "twinobj") else g == "nest"
        req = request(S, z, ladder, emb, with_units=(g == "perm"), nest=nest, twin=twin)
        out, mz = _OP["service"](req, project_name={"community": "Town", "region": "Land"}.get(g, "Site"), is_return_full_results=True)
        recs = project(out, emb, nest)
        # C14: exactly one direct-integration record per site / process zone of the prepared tree
        names = [t.name for t in out.targets]
        def walk(zn):
            yield zn
            for sz in zn.subzones.values():
                yield from walk(sz)
        from collections import Counter
        kinds = ("Site", "Process Zone") + (("Unit Operation",) if g == "ops" else ())
        want = Counter(f"{zn.name}/Direct Integration" for zn in walk(mz) if zn.identifier in kinds)
        if Counter(n for n in names if n.endswith("/Direct Integration")) != want:       # zone names may repeat in different branches
            run["py"].append("C14.one_DI_record_per_zone")
        # C04 at its end points: the utility grand composite curve reaches (sum of hot duties) at the hot end and (sum of cold
        # duties) at the cold end, the pocket-free process curve Qh and Qc; "between zero and the process curve" forbids more
        for t in out.targets:
            if t.name.endswith("/Direct Integration"):
                sc_ = 1e-6 * max(1.0, abs(float(t.Qh)) + abs(float(t.Qc)) + abs(float(t.Qr)))
                if (sum(float(u.heat_flow) for u in t.hot_utilities) > float(t.Qh) + sc_
                        or sum(float(u.heat_flow) for u in t.cold_utilities) > float(t.Qc) + sc_
                        or any(float(u.heat_flow) < -sc_ for u in t.hot_utilities + t.cold_utilities)):
                    run["py"].append("C04.utility_gcc_within_process_gcc.end_values")
                    break
        if recs is None:
            run["err"] = "non-finite number in a record"
        else:
            run["recs"] = recs
        if g in ("base", "perm", "split", "split2", "parallel", "zoneswap", "translate", "scale", "tree", "treerev", "community", "region", "twinobj"):
            run["gsig"] = graph_signature(out, emb)
        if extra_checks:
            # C14 structural clauses that are about the Python object, not about numbers
            js = out.model_dump_json()
            back = json.loads(js)
            type(out).model_validate(back)
            def finite(o):
                if isinstance(o, float):
                    return math.isfinite(o)
                if isinstance(o, dict):
                    return all(finite(v) for v in o.values())
                if isinstance(o, list):
                    return all(finite(v) for v in o)
                return True
            if not finite(back) or not finite(out.model_dump()):
                run["py"].append("C14.only_finite_numbers")
            out2 = _OP["service"](request(S, z, ladder, emb, with_units=(g == "perm"), nest=nest, twin=twin), project_name={"community": "Town", "region": "Land"}.get(g, "Site"))
            if out2.model_dump_json() != js:
                run["py"].append("C14.repeat_call_identical")
            if set(out.graphs or {}) != {t.name for t in out.targets}:
                run["py"].append("C13.one_graph_set_per_record")
    except Exception as e:
        run["err"] = repr(e)[:200]
    return run


def drive(args):
    idx, case = args
    lad = case["ladder"]
    runs = [one_run("base", case["S"], case["z"], lad, EMB_BASE, True)]
    for v in case["variants"]:
        emb = EMB_SHIFT if v["g"] == "translate" else EMB_SCALE if v["g"] == "scale" else EMB_BASE
        runs.append(one_run(v["g"], v["S"], v["z"], lad, emb, False, twin=v.get("twin", 0)))
    # C12 on graph data (harness-side float comparison; records are compared by TLC)
    embs = {"translate": EMB_SHIFT, "scale": EMB_SCALE}
    bsig = runs[0].pop("gsig", None)
    for r in runs[1:]:
        vsig = r.pop("gsig", None)
        if bsig is not None and vsig is not None and not runs[0]["err"] and not r["err"]:
            d = graphs_differ(bsig, vsig, r["g"], EMB_BASE, embs.get(r["g"], EMB_BASE))
            if d:
                r["py"].append("C12.graph_data_invariant_under." + r["g"])
                r["gdiff"] = d
    return dict(id=idx, S=case["S"], z=case["z"], lo=case["lo"], ladder=lad, mirrorC=case["mirrorC"], runs=runs)


def judge(events):
    """One TLC run of spec/TraceSite.tla over a batch of events; returns {event id: [clauses]}."""
    tmp = Path(tempfile.mkdtemp(prefix="trace_"))
    try:
        tf = tmp / "trace.json"
        ev = [dict(e, runs=[{k: v for k, v in r.items() if k not in ("py", "gdiff")} for r in e["runs"]]) for e in events]
        tf.write_text(json.dumps(ev))
        cfg = tmp / "trace.cfg"
        write_cfg(cfg, spec="Spec", constants=dict(Temps={0}, CPs={1}, DTCs={0}, LatentCPs=set(), ActStrict=True, ShiftByMin=True),
                  postcondition="TraceAccepted")
        res = run_tlc("TraceSite.tla", cfg, workers=1, xmx="4g", env={"TRACE_FILE": str(tf)})
    finally:
        shutil.rmtree(tmp, ignore_errors=True)
    if res.violated:
        raise MachineryError("trace not fully consumed by TLC:\n" + res.stdout[-1500:])
    verdicts = {}
    for tag, obj in res.lines:
        if tag == "VERDICT":
            verdicts[obj["id"]] = obj["fails"]
    return verdicts, res


OPTION_SETS = [
    {"DO_BALANCED_CC": False}, {"DO_AREA_TARGETING": True}, {"DO_BALANCED_CC": False, "DO_AREA_TARGETING": True},
    {"DO_VERTICAL_GCC": True}, {"DO_ASSITED_HT": True}, {"DO_VERTICAL_GCC": True, "DO_ASSITED_HT": True, "DO_AREA_TARGETING": True},
    {"DO_EXERGY_TARGETING": True}, {"DO_DIRECT_SITE_TARGETING": False},
    {"DO_DIRECT_OPERATION_TARGETING": True}, {"DO_INDIRECT_PROCESS_TARGETING": True},
    {"DO_DIRECT_OPERATION_TARGETING": True, "DO_INDIRECT_PROCESS_TARGETING": True},
    {"DT_CONT": 0.0}, {"DT_PHASE_CHANGE": 0.0}, {"HTC": 2.5, "UTILITY_PRICE": 0.0},
    # degenerate but legal SHAPES named by the statement, applied to the request (keys starting with "_" are not options)
    {"_single_stream": True}, {"_duplicate_stream_names": True}, {"_unused_utilities": True}, {"_zero_duty_isothermal_stream": True},
    # names that are schema-valid but collide with the library's own naming: a zone label without any component, a project named like a zone
    {"_zone_label_slash": True}, {"_project_named_like_zone": True},
]


def reshape(req, opts):
    """apply the shape variants of OPTION_SETS to a request; returns the real options"""
    real = {k: v for k, v in opts.items() if not k.startswith("_")}
    if opts.get("_single_stream"):
        req["streams"] = req["streams"][:1]
    if opts.get("_duplicate_stream_names"):
        for st in req["streams"]:
            st["name"] = "S"
    if opts.get("_unused_utilities"):
        req["utilities"] = list(req["utilities"]) + [
            dict(name="VHP", type="Hot", t_supply=EMB_BASE.T(900), t_target=EMB_BASE.T(900), heat_flow=0.0, dt_cont=0.0, htc=1.0, price=1.0),
            dict(name="CHW", type="Cold", t_supply=EMB_BASE.T(-900), t_target=EMB_BASE.T(-890), heat_flow=0.0, dt_cont=0.0, htc=1.0, price=1.0)]
    if opts.get("_zero_duty_isothermal_stream"):
        req["streams"] = list(req["streams"]) + [dict(zone=req["streams"][0]["zone"], name="Idle", t_supply=EMB_BASE.T(100), t_target=EMB_BASE.T(100),
                                                      heat_flow=0.0, dt_cont=EMB_BASE.dT(50), htc=1.0)]
    if opts.get("_zone_label_slash"):
        req["streams"][0]["zone"] = "/"
    req["options"].update(real)
    return real


def drive_options(args):
    """C14: every wired boolean option (and a few combinations / numeric options) on a problem: total, well-formed, repeatable."""
    idx, case, opts = args
    fails = []
    try:
        req = request(case["S"], case["z"], case["ladder"], EMB_BASE)
        reshape(req, opts)
        pname = req["streams"][-1]["zone"] if opts.get("_project_named_like_zone") else "Site"
        out, mz = _OP["service"](req, project_name=pname, is_return_full_results=True)
        js = out.model_dump_json()
        back = json.loads(js)
        type(out).model_validate(back)
        def finite(o):
            if isinstance(o, float):
                return math.isfinite(o)
            if isinstance(o, dict):
                return all(finite(v) for v in o.values())
            if isinstance(o, list):
                return all(finite(v) for v in o)
            return True
        if not finite(back) or not finite(out.model_dump()):
            fails.append("C14.only_finite_numbers")
        names = [t.name for t in out.targets]
        if len(names) != len(set(names)):
            fails.append("C14.record_names_unique")
        def walk(zn):
            yield zn
            for sz in zn.subzones.values():
                yield from walk(sz)
        kinds = ("Site", "Process Zone") + (("Unit Operation",) if opts.get("DO_DIRECT_OPERATION_TARGETING") else ())
        zs = [zn for zn in walk(mz) if zn.identifier in kinds]
        if sum(1 for n in names if n.endswith("/Direct Integration")) != len(zs):
            fails.append("C14.one_DI_record_per_zone")
        req2 = request(case["S"], case["z"], case["ladder"], EMB_BASE); reshape(req2, opts)
        if _OP["service"](req2, project_name=pname).model_dump_json() != js:
            fails.append("C14.repeat_call_identical")
    except Exception as e:
        fails.append("C14.service_raises")
        return dict(idx=idx, opts=opts, fails=fails, exc=repr(e)[:200])
    return dict(idx=idx, opts=opts, fails=fails)


def kf_indirect(v, f):
    return bool(v.detail.get("options", {}).get("DO_INDIRECT_PROCESS_TARGETING")) and v.clause == "C14.service_raises"


def kf_area_zero_dt(v, f):
    """area targeting where a stream has a zero contribution: the driving force at the pinch is 0 and the log mean is refused"""
    return (bool(v.detail.get("options", {}).get("DO_AREA_TARGETING")) and v.clause == "C14.service_raises"
            and "Invalid temperature differences" in (v.detail.get("exc") or "") and any(s_["dtc"] == 0 for s_ in v.case["S"]))


def kf_dead_stream(v, f):
    """a stream with supply == target and a duty of exactly 0 never gets its bounds (KF-C19-dead at service level)"""
    return (bool(v.detail.get("options", {}).get("_zero_duty_isothermal_stream")) and v.clause == "C14.service_raises"
            and "_t_max" in (v.detail.get("exc") or ""))


def kf_slash_label(v, f):
    """a zone label made of separators only has no component: the stream's generated unit operation hangs directly below the site"""
    return (bool(v.detail.get("options", {}).get("_zone_label_slash")) and v.clause == "C14.service_raises"
            and "KeyError" in (v.detail.get("exc") or "") and "/Direct Integration" in (v.detail.get("exc") or ""))


def kf_project_zone_name(v, f):
    """records are named <zone name>/<kind>: a project named like one of its zones gives two records of one name"""
    return bool(v.detail.get("options", {}).get("_project_named_like_zone")) and v.clause == "C14.record_names_unique"


def kf_opzones(v, f):
    return bool(v.detail.get("options", {}).get("DO_DIRECT_OPERATION_TARGETING")) and v.clause == "C14.record_names_unique"


def site_leg(run, tier, names, accept):
    """SiteGen problems -> real service in every equivalent description -> one trace event per problem -> TraceSite verdicts.
    accept(clause) returns the clause name to report under the calling property, or None."""
    nontriv = set()
    for name in names:
        res = gen_cases(name)
        run.add_tlc(res, "SiteGen/" + name)
        cases = res.cases
        if name == "quick2":
            cases = sample(cases, 1500, 2)
        if name == "quick3":
            cases = sample(cases, 300, 3)
        if name == "latent":
            cases = sample(cases, 150 if tier == "quick" else 2000, 6)
        if name == "deep3":
            cases = sample(cases, 6000, 4)
        with Pool(16, initializer=_init) as pool:
            events = pool.map(drive, list(enumerate(cases)), chunksize=8)
        allv = {}
        for i in range(0, len(events), 1500):
            verdicts, tres = judge(events[i:i + 1500])
            run.add_tlc(tres, "TraceSite/" + name)
            allv.update(verdicts)
        for ev in events:
            run.cov["evaluations"] += len(ev["runs"])
            run.cov["traces_validated_against_impl"] += 1
            fails = set(allv.get(ev["id"], [])) | {c for r in ev["runs"] for c in r["py"]}
            case = cases[ev["id"]]
            for c in sorted(fails):
                if accept(c):
                    run.violation(accept(c), case, dict(runs=[dict(g=r["g"], err=r["err"], recs=r["recs"], gdiff=r.get("gdiff")) for r in ev["runs"]]))
            if len(set(ev["z"])) > 1 or ev["lo"] > 0:
                nontriv.add(json.dumps([ev["S"], ev["z"], ev["lo"]]))
        run.cov["samples"] += [{"config": name, "streams": c["S"], "zones": c["z"], "ladder": c["ladder"],
                                "descriptions": ["base"] + [v["g"] for v in c["variants"]]} for c in cases[len(cases) // 2:][:2]]
    return nontriv


# ---------------------------------------------------------------------------
# C12 on larger random sites: a stream cut at a temperature that is no table row (the exhaustive lattice problems are too small
# for a utility hand-over to fall strictly inside a table interval, which is what seeded change C12e needs)
def _big_problem(rnd):
    from . import trace_pipeline as tp
    p = tp.random_problem(rnd)
    # hot utilities below the top: an isothermal level and a hot-water loop gliding through the process range
    top = max(s["hi"] for s in p["S"])
    lad = [dict(name="STM", type="Hot", ts=top + 300, tt=top + 300)]
    a = rnd.randrange(2, 16) * 100
    lad.append(dict(name="HWL", type="Hot", ts=a + rnd.choice([300, 500, 700]), tt=a))
    lad.append(dict(name="CWG", type="Cold", ts=-300, tt=-100))
    p["ladder"] = lad
    return p


def _small_problem(rnd):
    """2-4 streams with wide ranges: few table rows, so the hand-over between the hot-water loop and the steam level
    usually lies strictly inside a table interval (what seeded change C12e needs); every cut position is tried"""
    n = rnd.randint(2, 4)
    nz = rnd.randint(1, 2)
    S = []
    for i in range(n):
        kind = "C" if i == 0 else rnd.choice("HC")
        a = rnd.randrange(0, 8)
        b = a + rnd.randrange(3, 14)
        S.append(dict(k=kind, lo=100 * a, hi=100 * b, cp=rnd.randint(1, 4), dtc=rnd.choice([0, 50, 100]), z=rnd.randint(1, nz)))
    top = max(s["hi"] for s in S)
    a = rnd.randrange(2, 12) * 100
    lad = [dict(name="STM", type="Hot", ts=top + 300, tt=top + 300), dict(name="HWL", type="Hot", ts=a + rnd.choice([300, 500, 700]), tt=a),
           dict(name="CWG", type="Cold", ts=-300, tt=-100)]
    return dict(S=S, ladder=lad)


def _drive_big(args):
    idx, p = args
    from . import trace_pipeline as tp
    emb = tp.EMB
    wide = [i for i, s in enumerate(p["S"]) if s["hi"] - s["lo"] >= 200]
    if not wide:
        return dict(idx=idx, skipped=True)
    if "cut" in p:
        i, cut = p["cut"]
    else:
        i = wide[idx % len(wide)]
        w = (p["S"][i]["hi"] - p["S"][i]["lo"]) // 100
        cut = p["S"][i]["lo"] + 30 + 100 * ((idx // 3) % w)          # anywhere along the stream, never on the 50-unit lattice
    S2 = p["S"][:i] + [dict(p["S"][i], hi=cut), dict(p["S"][i], lo=cut)] + p["S"][i + 1:]
    try:
        ob = _OP["service"](tp.request(p), project_name="Site")
        ov = _OP["service"](tp.request(dict(p, S=S2)), project_name="Site")
    except Exception as e:
        return dict(idx=idx, fails=["C14.service_raises"], detail=dict(exc=repr(e)[:200]))
    fails, detail = [], {}
    rb = {t.name: t for t in ob.targets}
    rv = {t.name: t for t in ov.targets}
    if set(rb) != set(rv):
        fails.append("C12.same_records.split_large")
    else:
        scale = max(1.0, max(abs(float(t.Qh)) + abs(float(t.Qc)) + abs(float(t.Qr)) for t in ob.targets))
        for n, t in rb.items():
            u = rv[n]
            vals = [("target", t.Qh, u.Qh), ("target", t.Qc, u.Qc), ("target", t.Qr, u.Qr),
                    ("pinch", t.temp_pinch.hot_temp, u.temp_pinch.hot_temp), ("pinch", t.temp_pinch.cold_temp, u.temp_pinch.cold_temp)]
            vals += [("utility duty", a.heat_flow, b.heat_flow) for a, b in zip(t.hot_utilities + t.cold_utilities, u.hot_utilities + u.cold_utilities)]
            for fld, a, b in vals:
                if (a is None) != (b is None) or (a is not None and abs(float(a) - float(b)) > 1e-6 * scale):
                    fails.append("C12.invariant_under.split_large"); detail = dict(record=n, field=fld, base=a, variant=b); break
            if fails:
                break
    if not fails:
        d = graphs_differ(graph_signature(ob, emb), graph_signature(ov, emb), "split", emb, emb)
        if d:
            fails.append("C12.graph_data_invariant_under.split_large"); detail = d
    return dict(idx=idx, fails=fails, detail=detail, cut=[i, cut])


def kf_glide_rows(v, f):
    """KF-C12-glide-rows: only the split of duty between utilities differs, and the ladder has a gliding utility (see KF-C04-glide).
    Two shapes of case: the large-site leg (clause split_large) and the SiteGen leg (description split2: a cut off the lattice)."""
    if v.clause == "C12.invariant_under.split_large":
        lad = (v.case.get("problem") or {}).get("ladder") or []
        return v.detail.get("field") == "utility duty" and any(abs(u["ts"] - u["tt"]) > 10 for u in lad)
    if v.clause in ("C12.invariant_under.split2", "C12.graph_data_invariant_under.split2"):
        lad = v.case.get("ladder") or []
        if not any(abs(u["ts"] - u["tt"]) > 10 for u in lad):
            return False
        runs = {r["g"]: r for r in v.detail.get("runs", [])}
        b, s2 = runs.get("base"), runs.get("split2")
        if not b or not s2 or b["err"] or s2["err"] or len(b["recs"]) != len(s2["recs"]):
            return False
        duties_differ = False
        for x, y in zip(b["recs"], s2["recs"]):
            if any(x[k_] != y[k_] for k_ in ("name", "kind", "Qh", "Qc", "Qr", "hasPinch", "hotPinch", "coldPinch")):
                return False               # anything but the utility split differs: not this finding
            if [u["name"] for u in x["hu"] + x["cu"]] != [u["name"] for u in y["hu"] + y["cu"]]:
                return False
            if any(abs(u["q"] - w["q"]) > 12 for u, w in zip(x["hu"] + x["cu"], y["hu"] + y["cu"])):
                duties_differ = True
        if not duties_differ:
            return False
        if v.clause.startswith("C12.graph_data"):
            g = ((s2.get("gdiff") or {}).get("graph") or "")
            return any(t in g for t in ("Balanced Composite Curves", "Grand Composite Curve", "Total Site Profiles", "Site Utility"))
        return True
    return False


def big_split_leg(run, tier):
    import random
    run.register_matcher("kf_glide_rows", kf_glide_rows)
    rnd = random.Random(120 + seed())
    probs = [_big_problem(rnd) for _ in range(100 if tier == "quick" else 2500)]
    for _ in range(int(os.environ.get("VERIF_SMALL_SPLIT", 60 if tier == "quick" else 600))):
        q = _small_problem(rnd)
        for i, st in enumerate(q["S"]):
            for k in range((st["hi"] - st["lo"]) // 100):
                if rnd.random() < 0.5:
                    probs.append(dict(q, cut=[i, st["lo"] + 30 + 100 * k]))
    with Pool(16, initializer=_init) as pool:
        res = pool.map(_drive_big, list(enumerate(probs)), chunksize=4)
    n = 0
    for r in res:
        if r.get("skipped"):
            continue
        n += 1
        run.cov["evaluations"] += 1
        run.cov["traces_validated_against_impl"] += 1
        for c in r["fails"]:
            if c.startswith("C12."):
                run.violation(c, dict(problem=probs[r["idx"]], cut=r.get("cut")), r["detail"], leg="T")
    run.notes["large_sites_split_off_lattice"] = dict(problems=n, judged_by="harness (float comparison of records and graph point sets)")


def check(prop, tier, run: Run, replay_case=None):
    pre = prop + "."
    if prop == "C12":
        run.register_matcher("kf_glide_rows", kf_glide_rows)
    if replay_case is not None:
        _init()
        ev = drive((0, replay_case["case"]))
        verdicts, _ = judge([ev])
        fails = set(verdicts.get(0, [])) | {c for r in ev["runs"] for c in r["py"]}
        for c in sorted(fails):
            if c.startswith(pre):
                run.violation(c, replay_case["case"], dict(runs=[dict(g=r["g"], err=r["err"], recs=r["recs"]) for r in ev["runs"]]))
        run.cov["evaluations"] = 1
        return
    run.assumptions += ["site problems on the lattice under the native embedding (1 unit = 0.01 K, so the code's absolute 1 K level-matching window is 100 units)",
                        "reported numbers transported to TLC in fixed point (1e-4 lattice units), compared within 12 units (< 1e-6 of the total duty plus rounding)"]
    names = ["quick2", "quick3", "near", "latent"] if tier == "quick" else ["quick2", "near", "latent", "deep3"]
    nontriv = site_leg(run, tier, names, lambda c: c if (c.startswith(pre) or (prop == "C14" and c.startswith("C13.one_graph"))) else None)
    if prop == "C12":
        big_split_leg(run, tier)
    if prop in ("C02", "C09", "C14"):
        from . import corpus
        corpus.leg_t(run, prop, tier)
    if prop == "C14":
        run.register_matcher("kf_indirect", kf_indirect)
        run.register_matcher("kf_opzones", kf_opzones)
        run.register_matcher("kf_area_zero_dt", kf_area_zero_dt)
        run.register_matcher("kf_dead_stream", kf_dead_stream)
        run.register_matcher("kf_slash_label", kf_slash_label)
        run.register_matcher("kf_project_zone_name", kf_project_zone_name)
        base_cases = gen_cases("quick2").cases
        sel = sample(base_cases, 12 if tier == "quick" else 150, 5)
        jobs = [(i, c, o) for i, c in enumerate(sel) for o in OPTION_SETS]
        with Pool(16, initializer=_init) as pool:
            ores = pool.map(drive_options, jobs, chunksize=4)
        for r in ores:
            run.cov["evaluations"] += 1
            for c in r["fails"]:
                run.violation(c, sel[r["idx"]], dict(options=r["opts"], exc=r.get("exc")), leg="T")
        run.notes["options_sweep"] = dict(problems=len(sel), option_sets=len(OPTION_SETS), runs=len(ores))
    run.cov["distinct_nontrivial"] = len(nontriv)
    run.cov["rule"] = ("every site problem of <= MaxStreams lattice streams x zone assignment x request ladder enumerated by TLC (SiteGen), each run "
                       "through the real service in every equivalent description; one trace event per problem, judged by TLC (TraceSite); "
                       "non-trivial = more than one zone or a supplied ladder; distinct by (streams, zones, ladder)")
