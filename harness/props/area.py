"""C15: area, exchanger-count and capital-cost targets follow their definitions.

Leg M  spec/AreaCost.tla part 1: cost laws in exact rationals on a parameter grid (annuities of the capital-recovery
       factor sum to one, linear cost law, monotonicity), exported and replayed on the real costing functions
Leg T  part 2: lattice problems with strictly positive contributions are run through direct-integration targeting with
       area targeting on; the harness rebuilds the balanced composite curves from the streams and the assigned utility
       duties and decomposes them into enthalpy intervals on its own; TLC judges spans, interval sums, the log-mean
       bracket (the harness' logarithm is not trusted), the area identity and the cost law in fixed point
"""
from __future__ import annotations

import json
import math
import shutil
import tempfile
from fractions import Fraction as F
from multiprocessing import Pool
from pathlib import Path

from ..common import Run, Emb, repo_import, seed
from ..tlc import run_tlc, write_cfg, MachineryError
from . import utility as util_mod
from . import tdf as tdf_mod

GRID = dict(Areas={10, 45, 120}, Units={1, 2, 5}, FixedCosts={0, 1000}, VarCosts={0, 100, 450}, RateNum={1, 2, 3, 5}, RateDen={2, 4, 10}, Years={1, 2, 3, 4})
K = 100


def _tlc(consts, invs=(), post=None, env=None, workers=8):
    tmp = Path(tempfile.mkdtemp(prefix="tlccfg_"))
    try:
        cfg = tmp / "mc.cfg"
        write_cfg(cfg, spec="Spec", constants=consts, invariants=invs, postcondition=post)
        return run_tlc("AreaCost.tla", cfg, workers=workers, xmx="2g", env=env)
    finally:
        shutil.rmtree(tmp, ignore_errors=True)


# ---------------------------------------------------------------------------
_OP = {}
EMB = Emb("coarse", 20.0, 0.5, 10.0)       # 100 lattice units = 50 K, duties x 10


def _init():
    util_mod._init()
    _OP.update(util_mod._OP)
    from OpenPinch.main import pinch_analysis_service
    _OP["service"] = pinch_analysis_service


def curve_from(streams):
    """streams: [(t_lo, t_hi, cp, h)] -> breakpoints and heat-content function of a composite curve."""
    ts = sorted({t for s in streams for t in s[:2]})

    def H(t):
        return sum(cp * max(0.0, min(t, hi) - lo) for lo, hi, cp, _ in streams)
    return ts, H


def invert(ts, H, h, side):
    """temperature at heat content h (side: 'up' = upper end of a plateau, 'down' = lower end)"""
    hs = [H(t) for t in ts]
    if h <= hs[0] + 1e-9:
        cand = [t for t, v in zip(ts, hs) if abs(v - hs[0]) < 1e-9]
        return max(cand) if side == "up" else min(cand)
    if h >= hs[-1] - 1e-9:
        cand = [t for t, v in zip(ts, hs) if abs(v - hs[-1]) < 1e-9]
        return max(cand) if side == "up" else min(cand)
    cand = [t for t, v in zip(ts, hs) if abs(v - h) < 1e-9]
    if cand:
        return max(cand) if side == "up" else min(cand)
    for (t1, v1), (t2, v2) in zip(zip(ts, hs), zip(ts[1:], hs[1:])):
        if v1 < h < v2:
            return t1 + (t2 - t1) * (h - v1) / (v2 - v1)
    raise AssertionError


def resistance(streams, t1, t2):
    """CP-weighted film resistance of the streams active between temperatures t1 < t2"""
    act = [(cp, h) for lo, hi, cp, h in streams if hi > t1 + 1e-9 and lo < t2 - 1e-9 and cp > 0]
    tot = sum(cp for cp, _ in act)
    return sum(cp / h for cp, h in act) / tot if tot > 0 else 0.0


def one_case(args):
    idx, case = args
    emb = EMB
    z = util_mod.build_zone(case, emb)
    z.config.DO_AREA_TARGETING = True
    # cost parameters: any positive rate (also above 100 %/y) and life; fixed by the case index
    z.config.DISCOUNT_RATE, z.config.SERV_LIFE = [(0.07, 20), (1.5, 4), (0.35, 7), (1.0, 5), (2.5, 3), (7.0, 2)][idx % 6]
    z.config.COST_EXP = [1.0, 0.6][(idx // 6) % 2]
    # per-stream film coefficients: alternate 1 and 2 so that the resistance mapping matters
    hs = {}
    for coll in (z.hot_streams, z.cold_streams):
        for j, s in enumerate(coll._streams.values()):
            s.htc = 1.0 + (j + idx) % 2
            hs[s.name] = s.htc
    eid = json.dumps([case["S"], case["ho"], case["co"]])
    try:
        _OP["di"](z)
    except Exception as e:
        return dict(id=eid, raises=repr(e)[:300])
    t = z.targets["Z/Direct Integration"]
    area = getattr(t, "Area target", None)
    units = getattr(t, "Units target", None)
    cost = getattr(t, "Capital cost target", None)
    ann = getattr(t, "Annualised capital cost target", None)
    if area is None:
        return dict(id=eid, raises="no 'Area target' attribute")
    hot = [(s.t_min, s.t_max, s.CP, s.htc) for s in t_streams(z.hot_streams)] + [(u.t_min, u.t_max, u.heat_flow / (u.t_max - u.t_min), u.htc)
                                                                                 for u in t.hot_utilities if u.heat_flow > 1e-9]
    cold = [(s.t_min, s.t_max, s.CP, s.htc) for s in t_streams(z.cold_streams)] + [(u.t_min, u.t_max, u.heat_flow / (u.t_max - u.t_min), u.htc)
                                                                                   for u in t.cold_utilities if u.heat_flow > 1e-9]
    if not hot or not cold:
        return dict(id=eid, skipped="one side empty")
    th, Hh = curve_from(hot)
    tc, Hc = curve_from(cold)
    spanH, spanC = Hh(th[-1]), Hc(tc[-1])
    grid = sorted({round(Hh(t), 9) for t in th} | {round(Hc(t), 9) for t in tc})
    ints = []
    area_def = 0.0
    approx = 0.0
    raw = []
    for h1, h2 in zip(grid, grid[1:]):
        if h2 - h1 < 1e-9:
            continue
        th1, th2 = invert(th, Hh, h1, "up"), invert(th, Hh, h2, "down")
        tc1, tc2 = invert(tc, Hc, h1, "up"), invert(tc, Hc, h2, "down")
        d1, d2 = th1 - tc1, th2 - tc2
        if d1 <= 0 or d2 <= 0:
            return dict(id=eid, skipped="non-positive driving force in the independent decomposition")
        L = d1 if abs(d1 - d2) < 1e-9 else (d1 - d2) / math.log(d1 / d2)
        R = resistance(hot, th1, th2) + resistance(cold, tc1, tc2)
        Rf = F(R).limit_denominator(24)
        area_def += (h2 - h1) * R / L
        approx += (h2 - h1) * abs(R - float(Rf)) / L          # what the rational transport of R (denominator <= 24) can shift the sum by
        raw.append([h2 - h1, d1, d2, R, h2])
        ints.append(dict(q=int(round((h2 - h1) * K)), d1=int(round(d1 * K)), d2=int(round(d2 * K)), L=int(round(L * K)), rn=Rf.numerator, rd=Rf.denominator))
    # the code's documented "discontinuity" adjustment, replicated only to recognise the known finding precisely
    def jumps(ts, Hf):
        return {round(Hf(a), 9) for a, b in zip(ts, ts[1:]) if abs(Hf(b) - Hf(a)) < 1e-9}
    disc = jumps(th, Hh) | jumps(tc, Hc)
    for i in range(len(raw) - 2, -1, -1):
        if any(abs(raw[i][4] - d) < 1e-6 for d in disc):
            raw[i][2] = min(raw[i][2], raw[i + 1][2])
    area_adj = sum(q * R / (d1 if abs(d1 - d2) < 1e-9 else (d1 - d2) / math.log(d1 / d2)) for q, d1, d2, R, _ in raw)
    cfg = z.config
    ev = dict(id=eid, spanHot=int(round(spanH * K)), spanCold=int(round(spanC * K)), ints=ints, area=int(round(float(area) * K)),
              N=int(units), a=int(cfg.FIXED_COST), b=int(cfg.VARIABLE_COST), cost=int(round(float(cost))), costExp1=1 if cfg.COST_EXP == 1 else 0,
              approx=int(math.ceil(approx * K)) + 1)
    py = []
    if not (math.isfinite(float(area)) and float(area) > 0):
        py.append("C15.area_positive_finite")
    if abs(float(area) - area_def) > 1e-6 * max(1.0, area_def):
        py.append("C15.area_equals_independent_definition")
    exp_cost = units * cfg.FIXED_COST + units * cfg.VARIABLE_COST * (float(area) / units) ** cfg.COST_EXP if units else 0.0
    if abs(float(cost) - exp_cost) > 1e-6 * max(1.0, exp_cost):
        py.append("C15.capital_cost_law")
    i_, n_ = cfg.DISCOUNT_RATE, cfg.SERV_LIFE
    crf = float(ann) / float(cost) if cost else 0.0
    if cost and abs(crf * sum((1 + i_) ** -k for k in range(1, int(n_) + 1)) - 1.0) > 1e-9:
        py.append("C15.annuities_sum_to_one")
    if max(v for d in ints for v in (d["q"], d["d1"], d["d2"], d["L"])) > 20_000_000:
        return dict(id=eid, skipped="exceeds 32-bit transport", py=py, area=float(area), area_def=area_def)
    # known finding: with a temperature gap the code's adjustment can only shorten an end difference, i.e. OVER-estimate the area
    gap = (has_gap(hot) or has_gap(cold)) and float(area) >= area_def * (1 - 1e-9)
    return dict(ev=ev, py=py, area=float(area), area_def=area_def, id=eid, gap=gap)


def service_forms(args):
    """the same problem through pinch_analysis_service with every number as a float / as a value-with-unit object, film coefficients
    different from the default 1.0, and with all film coefficients doubled (the area is linear in the resistances)"""
    idx, case = args
    emb = EMB

    def req(vu, hmul):
        num = (lambda v, u: {"value": v, "units": u}) if vu else (lambda v, u: v)
        st = []
        for i, s_ in enumerate(case["S"]):
            lo, hi = s_["lo"], s_["hi"]
            ts, tt = (hi, lo) if s_["k"] == "H" else (lo, hi)
            st.append(dict(zone="Z", name=f"S{i+1}", t_supply=num(emb.T(ts), "degC"), t_target=num(emb.T(tt), "degC"),
                           heat_flow=num(emb.Q(s_["cp"] * (hi - lo)), "kW"), dt_cont=num(emb.dT(s_["dtc"]), "degC"),
                           htc=num(hmul * (0.5 + 1.5 * ((i + idx) % 2)), "kW/m2K")))
        return dict(streams=st, utilities=[], options={"DT_CONT": emb.dT(50), "DT_PHASE_CHANGE": emb.dT(10), "DO_AREA_TARGETING": True, "HTC": hmul * 1.0})   # default utilities take the option HTC
    out = {}
    for label, vu, hmul in (("float", False, 1.0), ("value_with_unit", True, 1.0), ("float_2h", False, 2.0), ("float_1e7h", False, 1e7)):
        try:
            _, site = _OP["service"](req(vu, hmul), project_name="Site", is_return_full_results=True)
            t = site.subzones["Z"].targets["Z/Direct Integration"]
            out[label] = [float(getattr(t, k)) for k in ("Area target", "Units target", "Capital cost target", "Annualised capital cost target")]
        except Exception as e:
            out[label] = repr(e)[:200]
    return dict(idx=idx, out=out)


def t_streams(coll):
    return list(coll._streams.values())


def has_gap(streams):
    """a temperature range inside the curve's extent where no stream is active (the composite has a vertical jump)"""
    ts = sorted({t for s in streams for t in s[:2]})
    return any(not any(lo <= a and hi >= b for lo, hi, *_ in streams) for a, b in zip(ts, ts[1:]))


def kf_gap(v, f):
    return bool(v.case.get("gap")) and v.clause in ("C15.area_equals_independent_definition", "C15.area_is_sum_of_interval_areas", "C15.area_tdf_end_difference.end")


def check(prop, tier, run: Run, replay_case=None):
    repo_import()
    from OpenPinch.utils.costing import compute_capital_cost, compute_capital_recovery_factor, compute_annual_capital_cost
    run.register_matcher("kf_gap", kf_gap)
    run.assumptions += ["contributions strictly positive (50 lattice units), isothermal or outermost utilities, film coefficients 1 and 2 alternating",
                        "the independent interval decomposition and its logarithm are computed in the harness; TLC re-checks every log-mean value against a root-free bracket and the area sum in fixed point"]
    # ---- part 1
    r = _tlc(dict(GRID, HasTrace=False, DoEmit=True), invs=["C15_AnnuitiesSumToOne", "C15_FactorDecreasesWithLife", "C15_CostIncreasesWithArea", "EmitCase"])
    run.add_tlc(r, "cost laws")
    if r.violated:
        run.machinery_errors.append(f"spec/AreaCost.tla violates {r.violated}")
    for case in r.cases:
        A, N, a, b, n = case["A"], case["N"], case["a"], case["b"], case["n"]
        i = case["i"][0] / case["i"][1]
        run.cov["evaluations"] += 1
        run.cov["traces_validated_against_impl"] += 1
        c1 = compute_capital_cost(float(A), N, float(a), float(b), 1.0)
        if abs(c1 - case["cost1"][0] / case["cost1"][1]) > 1e-9 * max(1.0, c1):
            run.violation("C15.capital_cost_law", case, dict(exponent=1, got=c1))
        ch = compute_capital_cost(float(A), N, float(a), float(b), 0.5)
        if b and abs(((ch - N * a) / (N * b)) ** 2 - case["halfsq"][0] / case["halfsq"][1]) > 1e-9 * max(1.0, A):
            run.violation("C15.capital_cost_law", case, dict(exponent=0.5, got=ch))
        crf = compute_capital_recovery_factor(i, n)
        if abs(crf - case["crf"][0] / case["crf"][1]) > 1e-12:
            run.violation("C15.capital_recovery_factor", case, dict(got=crf))
        ann = compute_annual_capital_cost(c1, i, n)
        if abs(ann * sum((1 + i) ** -k for k in range(1, n + 1)) - c1) > 1e-9 * max(1.0, c1):
            run.violation("C15.annuities_sum_to_one", case, dict(got=ann))
        # a life need not be a whole number of years: the factor for n + 1/2 years lies strictly between those for n and n + 1
        # (TLC supplied both as exact rationals), and the annual cost is the capital cost times the factor of that life
        crf_next = case["crfNext"][0] / case["crfNext"][1]
        half = compute_annual_capital_cost(c1, i, n + 0.5)
        if c1 > 0 and crf_next > 0 and not (crf_next * c1 * (1 + 1e-12) < half < (case["crf"][0] / case["crf"][1]) * c1 * (1 - 1e-12)):
            run.violation("C15.annualisation_uses_the_given_life", case, dict(life=n + 0.5, got=half, lower=crf_next * c1, upper=case["crf"][0] / case["crf"][1] * c1))
        if c1 > 0 and abs(half - c1 * compute_capital_recovery_factor(i, n + 0.5)) > 1e-9 * c1:
            run.violation("C15.annualisation_uses_the_given_life", case, dict(life=n + 0.5, got=half))
        for c_exp in (0.6, 1.0, 0.5):
            if b and not compute_capital_cost(float(A), N, a, b, c_exp) < compute_capital_cost(float(A) * 1.5, N, a, b, c_exp):
                run.violation("C15.cost_increases_with_area", case, dict(exponent=c_exp))
    # ---- mechanism level: the temperature-driving-force decomposition (spec/DrivingForce.tla)
    tdf_mod.check_part(run, tier, replay_case)
    # ---- part 2: stream sets from the Utility enumeration restricted to positive contributions
    gen = util_mod.tlc_cases("quick" if tier == "quick" else "deepA",
                             overrides=dict(DTCs={50}, HotOpts={0, 1, 2}, ColdOpts={0, 1, 2}) if tier == "quick" else dict(DTCs={50, 100}, HotOpts={0, 1, 2}, ColdOpts={0, 1, 2}))
    run.add_tlc(gen, "inputs (Utility.tla)")
    cases = [c for c in gen.cases if c["Qh"] > 0 or c["Qc"] > 0]
    if replay_case is not None:
        cases = [replay_case["case"]["input"]]
    from ..common import sample
    cases = sample(cases, 1500 if tier == "quick" else 12000, 15)
    with Pool(16, initializer=_init) as pool:
        results = pool.map(one_case, list(enumerate(cases)), chunksize=16)
    evs, skipped = [], {}
    for case, r_ in zip(cases, results):
        run.cov["evaluations"] += 1
        if "raises" in r_:
            run.violation("C15.area_targeting_raises", dict(input=case, gap=False), dict(exc=r_["raises"]), leg="T")
        elif "skipped" in r_:
            skipped[r_["skipped"]] = skipped.get(r_["skipped"], 0) + 1
        else:
            evs.append((case, r_))
            for c in r_["py"]:
                run.violation(c, dict(input=case, gap=r_["gap"]), dict(area=r_["area"], independent=r_["area_def"], judge="float"), leg="T")
    run.notes["skipped"] = skipped
    if evs:
        tmp = Path(tempfile.mkdtemp(prefix="trace_"))
        try:
            tf = tmp / "area.json"
            tf.write_text(json.dumps([r_["ev"] for _, r_ in evs]))
            tres = _tlc(dict(GRID, HasTrace=True, DoEmit=False), post="TraceAccepted", env={"TRACE_FILE": str(tf)}, workers=1)
        finally:
            shutil.rmtree(tmp, ignore_errors=True)
        run.add_tlc(tres, "trace")
        if tres.violated:
            raise MachineryError("area trace not consumed:\n" + tres.stdout[-1500:])
        byid = {r_["id"]: (case, r_) for case, r_ in evs}
        for tag, obj in tres.lines:
            if tag == "VERDICT":
                case, r_ = byid[obj["id"]]
                for c in obj["fails"]:
                    run.violation(c, dict(input=case, gap=r_["gap"]), dict(area=r_["area"], independent=r_["area_def"], judge="TLC", intervals=r_["ev"]["ints"][:6]), leg="T")
        run.cov["traces_validated_against_impl"] += len(evs)
        run.cov["samples"] = [dict(streams=evs[0][0]["S"], area=evs[0][1]["area"], intervals=evs[0][1]["ev"]["ints"][:4])]
    # ---- the same problems through the service, numbers as floats and as value-with-unit objects (C15 x C16), resistances doubled
    both = [c for c in cases if any(s_["k"] == "H" for s_ in c["S"]) and any(s_["k"] == "C" for s_ in c["S"])]
    sel = sample(both, 150 if tier == "quick" else 1500, 16)
    with Pool(16, initializer=_init) as pool:
        fres = pool.map(service_forms, list(enumerate(sel)), chunksize=4)
    for r_ in fres:
        case, o = sel[r_["idx"]], r_["out"]
        run.cov["evaluations"] += 4
        run.cov["traces_validated_against_impl"] += 1
        if any(isinstance(v, str) for v in o.values()):
            if len({v if isinstance(v, str) else "ok" for v in o.values()}) > 1:          # one form raises, another does not
                run.violation("C15.area_same_in_every_input_form", dict(input=case, gap=False), dict(forms=o), leg="T")
            continue
        a, b_, c_ = o["float"], o["value_with_unit"], o["float_2h"]
        if any(abs(x - y) > 1e-9 * max(1.0, abs(x)) for x, y in zip(a, b_)):
            run.violation("C15.area_same_in_every_input_form", dict(input=case, gap=False), dict(forms=o), leg="T")
        if abs(a[0] - 2.0 * c_[0]) > 1e-6 * max(1.0, a[0]):
            run.violation("C15.area_linear_in_film_resistances", dict(input=case, gap=False), dict(forms=o), leg="T")
        # "all film coefficients": the same law across seven orders of magnitude (resistances of 1e-7 m2K/kW are still resistances)
        if abs(a[0] - 1e7 * o["float_1e7h"][0]) > 1e-6 * max(1.0, a[0]):
            run.violation("C15.area_linear_in_film_resistances.large_coefficients", dict(input=case, gap=False), dict(forms=o), leg="T")
    run.notes["service_forms"] = dict(problems=len(sel), forms=["float", "value_with_unit", "float, film coefficients doubled"])
    run.cov["distinct_nontrivial"] = sum(1 for _, r_ in evs if len(r_["ev"]["ints"]) >= 3)
    run.cov["rule"] = ("cost laws: full parameter grid (TLC exhaustive, all replayed); area: stream multisets x isothermal ladders from the Utility.tla enumeration with "
                       "positive contributions (deterministic sample by VERIF_SEED); non-trivial = at least three enthalpy intervals")
