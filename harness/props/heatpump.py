"""C18: solved heat-pump cycles obey the first and second laws; stream sets carry the duties in any request order.

Leg M  spec/HeatPumpCycle.tla part 1: request-order machine (solve / build condenser / evaporator / both), exhaustive
Leg T  part 2: the real SimpleHeatPumpCycle is solved over an operating grid (fluids x evaporating level x lift x
       superheat x subcooling x efficiency x duty) with every order of stream-set requests; TLC judges the logged
       state points and stream sets in fixed point.  Saturation pressures are an independent CoolProp observation.
"""
from __future__ import annotations

import itertools
import json
import random
import shutil
import tempfile
from multiprocessing import Pool
from pathlib import Path

from ..common import Run, repo_import, seed
from ..tlc import run_tlc, write_cfg, MachineryError

ORDERS = [("e", "c"), ("c", "e"), ("b",), ("e", "e", "c"), ("c", "c", "e"), ("e", "b"), ("b", "e"), ("c", "b")]


def _tlc(consts, invs=(), post=None, env=None):
    tmp = Path(tempfile.mkdtemp(prefix="tlccfg_"))
    try:
        cfg = tmp / "mc.cfg"
        write_cfg(cfg, spec="Spec", constants=consts, invariants=invs, postcondition=post)
        return run_tlc("HeatPumpCycle.tla", cfg, workers=1, xmx="2g", env=env)
    finally:
        shutil.rmtree(tmp, ignore_errors=True)


def _init():
    repo_import()


def one_point(args):
    repo_import()
    from OpenPinch.classes.simple_heat_pump import SimpleHeatPumpCycle
    from CoolProp.CoolProp import PropsSI
    idx, fluid, Te, lift, sh, sc, eta, Q = args
    optional = fluid.endswith("?")
    fluid = fluid.rstrip("?")
    Tc = Te + lift
    eid = f"{fluid}|Te={Te}|Tc={Tc}|sh={sh}|sc={sc}|eta={eta}|Q={Q}"
    try:
        sets = []
        ref = None
        # an object that stays alive while other cycle objects are created and solved at other points (a cascade of heat pumps
        # holds several at once): what it reports afterwards must be what it reported right after its own solve
        keep = SimpleHeatPumpCycle()
        keep.solve(Te=Te, Tc=Tc, dT_sh=sh, dT_sc=sc, eta_comp=eta, refrigerant=fluid, ihx_gas_dt=0.0, Q_h_total=Q)
        for order in ORDERS:
            c = SimpleHeatPumpCycle()
            c.solve(Te=Te, Tc=Tc, dT_sh=sh, dT_sc=sc, eta_comp=eta, refrigerant=fluid, ihx_gas_dt=0.0, Q_h_total=Q)
            last = None
            for o in order:
                col = c.build_stream_collection(include_cond=o in ("c", "b"), include_evap=o in ("e", "b"))
                last = (o, col)
            o, col = last
            hot = [s for s in col._streams.values() if s.name.startswith("Condenser")]
            cold = [s for s in col._streams.values() if s.name.startswith("Evaporator")]
            f4 = lambda x: int(round(float(x) / Q * 10000))
            t2 = lambda x: int(round(float(x) * 100))
            sets.append(dict(order="".join(order), hot=[f4(s.heat_flow) for s in hot], cold=[f4(s.heat_flow) for s in cold],
                             hotT=[[t2(s.t_supply), t2(s.t_target)] for s in hot], coldT=[[t2(s.t_supply), t2(s.t_target)] for s in cold]))
            ref = c
        # the same point on a RE-USED object: solved before for another refrigerant at another operating point, sets requested
        other = "ammonia" if fluid != "ammonia" else "R134a"
        c2 = SimpleHeatPumpCycle()
        # (the earlier solve uses an internal heat exchanger: nothing of it may survive into the later solve without one)
        c2.solve(Te=5.0, Tc=40.0, dT_sh=2.0, dT_sc=1.0, eta_comp=0.8, refrigerant=other, ihx_gas_dt=(15.0 if idx % 2 else 0.0), Q_h_total=3.0 * Q)
        c2.build_stream_collection(include_cond=True, include_evap=(idx % 2 == 0))
        if idx % 3 == 0:      # ... and once more at another point of the same refrigerant
            c2.solve(Te=Te - 2.0, Tc=Tc + 1.0, dT_sh=sh, dT_sc=0.0, eta_comp=0.6, refrigerant=fluid, ihx_gas_dt=40.0, Q_h_total=2.0 * Q)
        c2.solve(Te=Te, Tc=Tc, dT_sh=sh, dT_sc=sc, eta_comp=eta, refrigerant=fluid, ihx_gas_dt=0.0, Q_h_total=Q)
        col = c2.build_stream_collection(include_cond=True, include_evap=True)
        hot = [s for s in col._streams.values() if s.name.startswith("Condenser")]
        cold = [s for s in col._streams.values() if s.name.startswith("Evaporator")]
        f4 = lambda x: int(round(float(x) / Q * 10000))
        t2 = lambda x: int(round(float(x) * 100))
        sets.append(dict(order="reused:b", hot=[f4(s.heat_flow) for s in hot], cold=[f4(s.heat_flow) for s in cold],
                         hotT=[[t2(s.t_supply), t2(s.t_target)] for s in hot], coldT=[[t2(s.t_supply), t2(s.t_target)] for s in cold]))
        reuse = dict(Qc=f4(c2.Q_cond), Qe=f4(c2.Q_evap), W=f4(c2.work), h=[int(round(float(x))) for x in c2.Hs],
                     s=[int(round(float(x) * 1000)) for x in c2.Ss], p=[int(round(float(x) / 10)) for x in c2.Ps])
        c3 = SimpleHeatPumpCycle()
        c3.solve(Te=-3.0, Tc=33.0, dT_sh=4.0, dT_sc=2.0, eta_comp=0.65, refrigerant=other, ihx_gas_dt=0.0, Q_h_total=7.0 * Q)
        c3.build_stream_collection(include_cond=True, include_evap=True)
        col = keep.build_stream_collection(include_cond=True, include_evap=True)
        hot = [s for s in col._streams.values() if s.name.startswith("Condenser")]
        cold = [s for s in col._streams.values() if s.name.startswith("Evaporator")]
        sets.append(dict(order="kept-alive:b", hot=[f4(s.heat_flow) for s in hot], cold=[f4(s.heat_flow) for s in cold],
                         hotT=[[t2(s.t_supply), t2(s.t_target)] for s in hot], coldT=[[t2(s.t_supply), t2(s.t_target)] for s in cold]))
        alive = dict(Qc=f4(keep.Q_cond), Qe=f4(keep.Q_evap), W=f4(keep.work), h=[int(round(float(x))) for x in keep.Hs],
                     s=[int(round(float(x) * 1000)) for x in keep.Ss], p=[int(round(float(x) / 10)) for x in keep.Ps])
        c = ref
        psE = PropsSI("P", "T", Te + 273.15, "Q", 1.0, fluid)
        psC = PropsSI("P", "T", Tc + 273.15, "Q", 0.0, fluid)
        ev = dict(id=eid, Qc=f4(c.Q_cond), Qe=f4(c.Q_evap), W=f4(c.work), COPh=int(round(c.COP_h * 10000)), COPr=int(round(c.COP_r * 10000)),
                  h=[int(round(float(x))) for x in c.Hs], s=[int(round(float(x) * 1000)) for x in c.Ss],
                  p=[int(round(float(x) / 10)) for x in c.Ps], psatE=int(round(psE / 10)), psatC=int(round(psC / 10)), sets=sets, reuse=reuse, alive=alive)
        if max(abs(v) for v in ev["h"] + ev["s"] + ev["p"]) > 2_000_000_000:
            return dict(id=eid, skipped="state value exceeds 32 bits")
        return ev
    except Exception as e:
        if optional:
            return dict(id=eid, skipped="not solved: " + repr(e)[:80])
        return dict(id=eid, raises=repr(e)[:200])


def grid(tier, rnd):
    fluids = ["water", "ammonia", "R134a", "R245fa", "n-Pentane", "Isobutane", "CO2", "R1234yf"] if tier == "thorough" else ["water", "ammonia", "R134a", "R245fa", "n-Pentane"]
    pts = []
    base = {"water": (60.0,), "ammonia": (-10.0, 20.0), "R134a": (-5.0, 20.0), "R245fa": (30.0,), "n-Pentane": (40.0,), "Isobutane": (10.0,), "CO2": (-20.0,), "R1234yf": (0.0,)}
    for f in fluids:
        for Te in base[f]:
            for lift in ((20.0, 45.0) if tier == "quick" else (10.0, 20.0, 45.0, 60.0)):
                if f == "CO2" and Te + lift > 28:
                    continue
                for sh, sc in ((0.0, 0.0), (5.0, 3.0), (0.0, 8.0)):
                    for eta in ((0.7, 1.0) if tier == "quick" else (0.5, 0.7, 0.9, 1.0)):
                        pts.append((f, Te, lift, sh, sc, eta, rnd.choice([0.02, 1.0, 42.0, 750.0, 2.5e4])))     # any positive duty: from 20 W (in kW) to 25 MW
    # regimes in which a saturation point lies outside the end states of a heat exchanger (found by a seeding sub-agent on the pinned
    # tree, repaired in /repo 65f4079): throttle outlet already superheated (near-critical condensing of a dry fluid), compressor
    # discharge wet or liquid (very dry fluids, no superheat, full efficiency)
    for f, Te, lift, sh, sc, eta in (("R114", 15.0, 120.0, 20.0, 0.0, 0.55), ("R114", 15.0, 120.0, 20.0, 0.0, 0.7), ("D4", 250.0, 45.0, 0.0, 0.0, 1.0),
                                     ("MM", 10.0, 210.0, 0.0, 0.0, 1.0), ("MDM", 100.0, 150.0, 0.0, 0.0, 1.0), ("n-Dodecane", 200.0, 150.0, 0.0, 0.0, 0.9)):
        pts.append((f, Te, lift, sh, sc, eta, 1.0))
    # seeded random operating points over pure fluids: evaporating level anywhere between the triple point (+5 K, >= -40 C) and
    # 27 K below the critical temperature, lifts from 3 K, superheat / subcooling up to 20 / 15 K, efficiencies down to 0.3
    from CoolProp.CoolProp import PropsSI
    pure = ["water", "ammonia", "R134a", "R245fa", "n-Pentane", "Isobutane", "CO2", "R1234yf", "Propane", "R32", "Toluene", "Ethanol", "R600a"]
    for _ in range(60 if tier == "quick" else 1500):
        f = rnd.choice(pure)
        lo = max(PropsSI("Ttriple", f) - 273.15 + 5, -40.0); hi = PropsSI("Tcrit", f) - 273.15 - 15
        Te = round(rnd.uniform(lo, hi - 12), 1)
        lift = round(rnd.uniform(3, min(80, hi - Te)), 1)
        pts.append((f, Te, lift, float(rnd.choice([0, 0, 2, 5, 10, 20])), float(rnd.choice([0, 0, 3, 8, 15])),
                    rnd.choice([0.3, 0.5, 0.7, 0.9, 1.0]), rnd.choice([0.02, 1.0, 42.0, 750.0, 2.5e4])))
    # "all refrigerants known to the property library": every pure fluid CoolProp lists, evaporating level anywhere in the two-phase
    # range, condensing level up to 8 K below the critical temperature (large lifts included).  A point the library refuses to
    # solve (CoolProp's flash routines fail for some fluids / regions) is outside "every cycle the library solves": counted, no verdict
    import CoolProp.CoolProp as CP
    # pseudo-pure blends (R410A, R404A, R407C, R507A, SES36, Air) are excluded by the library's own flag: their dew and bubble pressures
    # differ and CoolProp's two-phase entropies are not consistent for them (SES36: throttling "loses" 0.6 J/kg/K -- a first version
    # that only compared the two pressures let it through and alarmed in the thorough tier)
    allf = sorted(f for f in CP.FluidsList() if CP.get_fluid_param_string(f, "pure") == "true")
    for _ in range(150 if tier == "quick" else 4000):
        f = rnd.choice(allf)
        try:
            tmin = max(PropsSI("Ttriple", f), PropsSI("Tmin", f)) - 273.15 + 5; tcr = PropsSI("Tcrit", f) - 273.15
        except Exception:
            continue
        if tcr - 8 - tmin < 12:
            continue
        try:   # pseudo-pure blends (R410A, R404A, R507A, Air ...): dew and bubble pressure differ, "the saturation pressure" is undefined
            tm = 0.5 * (tmin + tcr) + 273.15
            if abs(PropsSI("P", "T", tm, "Q", 0.0, f) / PropsSI("P", "T", tm, "Q", 1.0, f) - 1.0) > 1e-9:
                continue
        except Exception:
            continue
        Te = round(rnd.uniform(tmin, tcr - 20), 1)
        lift = round(rnd.uniform(3, tcr - 8 - Te), 1)
        pts.append((f + "?", Te, lift, float(rnd.choice([0, 0, 5, 20])), float(rnd.choice([0, 0, 5])), rnd.choice([0.4, 0.7, 1.0]), rnd.choice([0.02, 1.0, 750.0])))
    return [(i,) + p for i, p in enumerate(pts)]


def check(prop, tier, run: Run, replay_case=None):
    run.assumptions += ["refrigerant properties and saturation pressures come from CoolProp (the implementation's own source); the specification states the laws, it does not recompute properties",
                        "cycles without internal heat exchanger (ihx_gas_dt = 0); pure fluids only (for zeotropic blends such as R410A dew and bubble pressure differ and 'the saturation pressure' of a temperature is not defined by the statement)"]
    r = _tlc(dict(HasTrace=False, MaxReq=5, EvapSharesMdot=False, BackendCached=False, SharedStates=False), invs=["C18_OrderIndependent", "C18_BackendIsRequested", "C18_OwnStatePoints"])
    run.add_tlc(r, "request-order machine")
    if r.violated:
        run.machinery_errors.append("spec/HeatPumpCycle.tla violates C18_OrderIndependent")
    if tier == "thorough":
        r2 = _tlc(dict(HasTrace=False, MaxReq=5, EvapSharesMdot=True, BackendCached=False, SharedStates=False), invs=["C18_OrderIndependent"])
        r3 = _tlc(dict(HasTrace=False, MaxReq=5, EvapSharesMdot=False, BackendCached=True, SharedStates=False), invs=["C18_BackendIsRequested"])
        r4 = _tlc(dict(HasTrace=False, MaxReq=5, EvapSharesMdot=False, BackendCached=False, SharedStates=True), invs=["C18_OwnStatePoints"])
        run.notes["mutant_models"] = {"EvapSharesMdot": r2.violated, "BackendCached": r3.violated, "SharedStates": r4.violated}
        if not r4.violated:
            run.machinery_errors.append("mutant model SharedStates not rejected")
        if not r2.violated:
            run.machinery_errors.append("mutant model EvapSharesMdot not rejected")
        if not r3.violated:
            run.machinery_errors.append("mutant model BackendCached not rejected")
    rnd = random.Random(seed())
    pts = grid(tier, rnd) if replay_case is None else [tuple(replay_case["case"]["args"])]
    with Pool(16, initializer=_init) as pool:
        events = pool.map(one_point, pts, chunksize=2)
    args_by_id = {e["id"]: list(p) for e, p in zip(events, pts)}
    good = [e for e in events if "raises" not in e and "skipped" not in e]
    for e in events:
        if "raises" in e:
            run.violation("C18.solve_raises", dict(id=e["id"], args=args_by_id[e["id"]]), dict(exc=e["raises"]), leg="T")
    tmp = Path(tempfile.mkdtemp(prefix="trace_"))
    try:
        tf = tmp / "hp.json"
        tf.write_text(json.dumps(good))
        res = _tlc(dict(HasTrace=True, MaxReq=1, EvapSharesMdot=False, BackendCached=False, SharedStates=False), post="TraceAccepted", env={"TRACE_FILE": str(tf)})
    finally:
        shutil.rmtree(tmp, ignore_errors=True)
    run.add_tlc(res, "trace")
    if res.violated:
        raise MachineryError("heat-pump trace not consumed:\n" + res.stdout[-1500:])
    byid = {e["id"]: e for e in good}
    for tag, obj in res.lines:
        if tag == "VERDICT":
            e = byid[obj["id"]]
            for c in obj["fails"]:
                run.violation(c, dict(id=e["id"], args=args_by_id[e["id"]]), dict(event={k: e[k] for k in ("Qc", "Qe", "W", "COPh", "COPr", "h", "s", "p", "psatE", "psatC")},
                                                                                 sets=e["sets"][:3]), leg="T")
    run.cov["evaluations"] = len(events) * len(ORDERS)
    run.cov["traces_validated_against_impl"] = len(good)
    run.cov["exhaustive"] = False
    run.cov["distinct_nontrivial"] = sum(1 for e in good if e["sets"] and len(e["sets"][0]["hot"]) + len(e["sets"][0]["cold"]) >= 4)
    run.cov["samples"] = [dict(id=good[0]["id"], Qc=good[0]["Qc"], Qe=good[0]["Qe"], W=good[0]["W"], sets=good[0]["sets"][:2])] if good else [{"note": "no event"}]
    run.notes["skipped"] = [e["id"] + " " + e["skipped"] for e in events if "skipped" in e][:10]
    run.notes["not_solved_or_skipped"] = sum(1 for e in events if "skipped" in e)
    run.cov["rule"] = ("operating grid: fluids x evaporating level x lift x (superheat, subcooling) x isentropic efficiency x duty, each solved and queried in 8 request orders; "
                       "one trace event per operating point; non-trivial = the stream sets have at least four segments (de-superheating, condensation, sub-cooling, evaporation)")
