"""C03 / C04: multi-utility targeting allocates exactly the target duty; utility profiles are feasible
and lowest-grade-first.

Leg M  spec/Utility.tla: one action per utility (the code's order, masks, row pairing, break) over every
       stream multiset x utility ladder; invariants: sums close, feasibility at every breakpoint,
       closed-form optimum for isothermal ladders (itself brute-force checked in the tiny config)
Leg R  every case replayed through compute_direct_integration_targets on a Zone built from the lattice
       streams and ladder; duties, the unrounded H_net_ut / H_net_np columns (hook snapshot) and the
       utility GCC rebuilt from the reported duties are judged against TLC's values
"""
from __future__ import annotations

import json
import shutil
import tempfile
from fractions import Fraction as F
from multiprocessing import Pool
from pathlib import Path

from ..common import Run, EMBS, E0, E1, E2, Emb, close, repo_import, seed
from ..tlc import run_tlc, write_cfg

PROPS = ("C03", "C04")
BASE = dict(ActStrict=True, ShiftByMin=True, LatentCPs=set(), DoEmit=True, PairSameRow=False, ColdWraps=False,
            NoBreak=False, BruteForce=False)
CFG = {
    "quick": dict(Temps={0, 100, 200}, CPs={1, 2}, DTCs={0, 50}, MaxStreams=3, HotOpts={0, 1, 2, 4, 5, 6, 7, 8}, ColdOpts={0, 2, 3, 5, 6, 7, 8}),
    "deepA": dict(Temps={0, 100, 200, 300}, CPs={1, 2}, DTCs={0, 50}, MaxStreams=3, HotOpts={0, 1, 2, 3, 4, 5, 6, 7, 8}, ColdOpts={0, 1, 2, 3, 4, 5, 6, 7, 8}),
    "deepB": dict(Temps={0, 100, 200}, CPs={1, 2}, DTCs={0, 50}, MaxStreams=4, HotOpts={2, 4}, ColdOpts={2, 4}),
    "tiny": dict(Temps={0, 100, 200}, CPs={1, 2}, DTCs={0, 50}, MaxStreams=2, HotOpts={0, 1, 2, 3, 5}, ColdOpts={0, 1, 2, 3}),
}
INVS = ["C03_Sums", "C04_Feasible", "C04_Optimal", "C04_BruteForce", "EmitCase"]


def tlc_cases(name, overrides=None, emit=True, invs=None):
    consts = dict(BASE); consts.update(CFG[name])
    if overrides:
        consts.update(overrides)
    consts["DoEmit"] = emit
    tmp = Path(tempfile.mkdtemp(prefix="tlccfg_"))
    try:
        cfg = tmp / "mc.cfg"
        write_cfg(cfg, spec="Spec", constants=consts, invariants=invs or INVS)
        return run_tlc("Utility.tla", cfg, workers=16, xmx="8g")
    finally:
        shutil.rmtree(tmp, ignore_errors=True)


_OP = {}


def _init():
    repo_import()
    import numpy as np
    from OpenPinch.classes.stream import Stream
    from OpenPinch.classes.zone import Zone
    from OpenPinch.lib.enums import ProblemTableLabel as PT, ZoneType
    from OpenPinch.lib.config import Configuration
    from OpenPinch.analysis.direct_integration_entry import compute_direct_integration_targets
    from OpenPinch import _verif
    _OP.update(np=np, Stream=Stream, Zone=Zone, PT=PT, ZoneType=ZoneType, Configuration=Configuration,
               di=compute_direct_integration_targets, verif=_verif)


def fr(v):
    return F(v[0], v[1])


def build_zone(case, emb: Emb, name="Z"):
    Stream, Zone = _OP["Stream"], _OP["Zone"]
    cfg = _OP["Configuration"]()
    cfg.DT_PHASE_CHANGE = emb.dT(10)
    z = Zone(name=name, identifier=_OP["ZoneType"].P.value, zone_config=cfg)
    for i, s in enumerate(case["S"]):
        lo, hi = s["lo"], s["hi"]
        ts, tt = (hi, lo) if s["k"] == "H" else (lo, hi)
        st = Stream(name=f"S{i+1}", t_supply=emb.T(ts), t_target=emb.T(tt), heat_flow=emb.Q(s["cp"] * (hi - lo)),
                    dt_cont=emb.dT(s["dtc"]), htc=1.0, is_process_stream=True)
        (z.hot_streams if s["k"] == "H" else z.cold_streams).add(st)
    for j, u in enumerate(case["HU"]):
        # lo/hi are the SHIFTED levels; a utility's own contribution puts its real temperatures further out
        z.hot_utilities.add(Stream(name=f"HU{j+1}", t_supply=emb.T(u["hi"] + u["dtc"]), t_target=emb.T(u["lo"] + u["dtc"]), heat_flow=0.0,
                                   dt_cont=emb.dT(u["dtc"]), htc=1.0, price=1.0, is_process_stream=False))
    for j, u in enumerate(case["CU"]):
        z.cold_utilities.add(Stream(name=f"CU{j+1}", t_supply=emb.T(u["lo"] - u["dtc"]), t_target=emb.T(u["hi"] - u["dtc"]), heat_flow=0.0,
                                    dt_cont=emb.dT(u["dtc"]), htc=1.0, price=1.0, is_process_stream=False))
    return z


def frac_hot(u, x):
    return 1.0 if x >= u["hi"] else 0.0 if x <= u["lo"] else (x - u["lo"]) / (u["hi"] - u["lo"])


def frac_cold(u, x):
    return 1.0 if x <= u["lo"] else 0.0 if x >= u["hi"] else (u["hi"] - x) / (u["hi"] - u["lo"])


def interp_rows(rows, vals, x):
    if x >= rows[0]:
        return vals[0]
    if x <= rows[-1]:
        return vals[-1]
    for (t1, v1), (t2, v2) in zip(zip(rows, vals), zip(rows[1:], vals[1:])):
        if t2 <= x <= t1:
            return v2 + (v1 - v2) * (x - t2) / (t1 - t2)
    raise AssertionError


def replay(args):
    case, ename = args
    emb = EMBS[ename]
    np, PT, V = _OP["np"], _OP["PT"], _OP["verif"]
    out = []
    scale = max(1.0, emb.Q(case["totHot"] + case["totCold"]))
    tol = 1e-6 * scale

    def bad(clause, **d):
        out.append((clause, dict(d, emb=ename)))
    V.reset()
    try:
        z = build_zone(case, emb)
        _OP["di"](z)
    except Exception as e:
        bad("C14.di_raises", exc=repr(e)[:300])
        return out, {}
    t = z.targets["Z/Direct Integration"]
    snap = [e for e in V.EVENTS if e["ev"] == "tables"][-1]
    ci = snap["col_index"]
    P = snap["pt"]
    hq = {u.name: float(u.heat_flow) for u in t.hot_utilities}
    cq = {u.name: float(u.heat_flow) for u in t.cold_utilities}
    hq = [hq[f"HU{j+1}"] for j in range(len(case["HU"]))]
    cq = [cq[f"CU{j+1}"] for j in range(len(case["CU"]))]
    Qh, Qc = emb.Q(case["Qh"]), emb.Q(case["Qc"])
    # ---- C03: sums close, duties non-negative
    if not close(sum(hq), Qh, scale):
        bad("C03.sum_hot", got=sum(hq), expected=Qh, duties=hq)
    if not close(sum(cq), Qc, scale):
        bad("C03.sum_cold", got=sum(cq), expected=Qc, duties=cq)
    if min(hq + cq + [0.0]) < -tol:
        bad("C03.duty_nonnegative", duties=hq + cq)
    # ---- C04: feasibility on the shifted scale
    T = P[:, ci[PT.T.value]]
    UT, NPc = P[:, ci[PT.H_NET_UT.value]], P[:, ci[PT.H_NET_NP.value]]
    rows, npdef = case["rows"], case["np"]
    worst = None
    for i in range(len(T)):
        x = emb.untT(float(T[i]))
        lim = emb.Q(interp_rows(rows, npdef, x))
        if float(UT[i]) > lim + tol or float(UT[i]) < -tol or float(UT[i]) > float(NPc[i]) + tol:
            worst = dict(T=float(T[i]), H_net_ut=float(UT[i]), np_def=lim, H_net_np=float(NPc[i]))
            break
    if worst:
        bad("C04.feasible.table_columns", **worst)
    # utility GCC rebuilt from the reported duties, at every definitional breakpoint
    if case["hasPinch"]:
        for x, npv in zip(rows, npdef):
            uh = sum(q * frac_hot(u, x) for q, u in zip(hq, case["HU"]))
            uc = sum(q * frac_cold(u, x) for q, u in zip(cq, case["CU"]))
            lim = emb.Q(npv)
            if x >= case["hotPinch"] and uh > lim + tol:
                bad("C04.feasible.hot_duties", T=emb.T(x), utility_heat_below=uh, process_demand_below=lim); break
            if x < case["hotPinch"] and uh > tol:
                bad("C04.feasible.hot_below_pinch", T=emb.T(x), utility_heat_below=uh); break
            if x <= case["coldPinch"] and uc > lim + tol:
                bad("C04.feasible.cold_duties", T=emb.T(x), utility_heat_above=uc, process_surplus_above=lim); break
            if x > case["coldPinch"] and uc > tol:
                bad("C04.feasible.cold_above_pinch", T=emb.T(x), utility_heat_above=uc); break
    # lowest-grade-first optimum (isothermal ladders): TLC's allocation equals the closed form (invariant C04_Optimal)
    # expected: the definitional lowest-grade-first optimum on the SHIFTED scale (equal to the specification's allocation
    # except in the known-finding class kfOrder, where the code -- and the implementation-shaped action -- follow the real order)
    if case["isothermal"]:
        exp_h = [emb.Q(float(q)) for q in case["optQ"]["hot"]]
        exp_c = [emb.Q(float(q)) for q in case["optQ"]["cold"]]
    else:
        exp_h = [emb.Q(float(fr(q))) for q in case["hotQ"]]
        exp_c = [emb.Q(float(fr(q))) for q in case["coldQ"]]
    def by_level(qs, us):          # utilities at one and the same level are interchangeable: compare the level's total
        tot = {}
        for q, u in zip(qs, us):
            tot[(u["lo"], u["hi"])] = tot.get((u["lo"], u["hi"]), 0.0) + q
        return [tot[k] for k in sorted(tot)]
    agree = all(close(a, b, scale) for a, b in zip(by_level(hq, case["HU"]) + by_level(cq, case["CU"]),
                                                    by_level(exp_h, case["HU"]) + by_level(exp_c, case["CU"])))
    if case["isothermal"] and not agree:
        bad("C04.lowest_grade_first", got=hq + cq, expected=exp_h + exp_c)
    drift = None if agree else "duties differ from spec/Utility.tla allocation (glide ladder)"
    return out, dict(drift=drift, multi=(sum(1 for q in hq if q > tol) > 1 or sum(1 for q in cq if q > tol) > 1),
                     pockets=any(a < b for a, b in zip(case["np"], case["np"][1:])) and any(a > b for a, b in zip(case["np"], case["np"][1:])))


BULK_CP = 100000000      # 10^8: every other duty of the lattice problems is below 1e-6 of it


def replay_bulk(args):
    """C04 'largest duty on the lowest grade' next to a duty a million times larger: the case plus one cold stream of CP 10^8 that
    sits ABOVE every intermediate level and every other stream (and below the top hot utility).  Its duty D can only come from the
    top utility, the pocket-free curve below it is unchanged, so every other utility must carry exactly what it carried without
    it -- judged with the tolerance of the ORIGINAL scale (an absolute tolerance that grows with the total would hide a level
    whose duty is tiny against D: seeded change C04h)."""
    case, ename = args
    emb = EMBS[ename]
    tmax = max([s_["hi"] + (s_["dtc"] if s_["k"] == "C" else -s_["dtc"]) for s_ in case["S"]] + [u["hi"] for j, u in enumerate(case["HU"]) if u["hi"] < max(v["hi"] for v in case["HU"])]
               + [u["hi"] for u in case["CU"]] + [0])
    top = max(range(len(case["HU"])), key=lambda j: case["HU"][j]["hi"])
    lo = case["HU"][top]["lo"] - 90
    if lo - 40 <= tmax:
        return [], False
    big = dict(k="C", lo=lo - 40, hi=lo, cp=BULK_CP, dtc=0)
    D = emb.Q(BULK_CP * 40)
    case2 = dict(case, S=list(case["S"]) + [big])
    scale0 = max(1.0, emb.Q(case["totHot"] + case["totCold"]))
    out = []
    try:
        z = build_zone(case2, emb)
        _OP["di"](z)
    except Exception as e:
        return [("C14.di_raises", dict(exc=repr(e)[:300], emb=ename, variant="bulk"))], True
    t = z.targets["Z/Direct Integration"]
    hq = {u.name: float(u.heat_flow) for u in t.hot_utilities}
    cq = {u.name: float(u.heat_flow) for u in t.cold_utilities}
    hq = [hq[f"HU{j+1}"] for j in range(len(case["HU"]))]
    cq = [cq[f"CU{j+1}"] for j in range(len(case["CU"]))]
    exp_h = [emb.Q(float(q)) for q in case["optQ"]["hot"]]
    exp_c = [emb.Q(float(q)) for q in case["optQ"]["cold"]]
    if abs(sum(hq) - (emb.Q(case["Qh"]) + D)) > 1e-6 * (scale0 + D) or abs(sum(cq) - emb.Q(case["Qc"])) > 1e-6 * (scale0 + D):
        out.append(("C03.sum_hot", dict(got=sum(hq), expected=emb.Q(case["Qh"]) + D, emb=ename, variant="bulk")))
    def by_level(qs, us, skip=None):
        tot = {}
        for j, (q, u) in enumerate(zip(qs, us)):
            if j != skip:
                tot[(u["lo"], u["hi"])] = tot.get((u["lo"], u["hi"]), 0.0) + q
        return [tot[k] for k in sorted(tot)]
    got = by_level(hq, case["HU"], top) + by_level(cq, case["CU"])
    exp = by_level(exp_h, case["HU"], top) + by_level(exp_c, case["CU"])
    if any(abs(a - b) > 1e-6 * scale0 for a, b in zip(got, exp)) or abs(hq[top] - (exp_h[top] + D)) > 1e-6 * (scale0 + D):
        out.append(("C04.lowest_grade_first", dict(got=hq + cq, expected=exp_h[:top] + [exp_h[top] + D] + exp_h[top + 1:] + exp_c, emb=ename, variant="bulk")))
    return out, True


def shape_case(shape):
    """A GCC shape (rows 100 units apart, top first) as the stream set that has exactly this grand composite curve (one stream per
    interval, contributions 0) plus a ladder with an intermediate level on each side."""
    n = len(shape)
    S = []
    for j in range(n - 1):
        hi = (n - j) * 100
        d = shape[j + 1] - shape[j]
        if d:
            S.append(dict(k="H" if d > 0 else "C", lo=hi - 100, hi=hi, cp=abs(d) / 100.0, dtc=0))
    mid = (n // 2) * 100
    return dict(shape=list(shape), S=S, HU=[dict(lo=n * 100 + 190, hi=n * 100 + 200, dtc=0), dict(lo=mid + 140, hi=mid + 150, dtc=0)],
                CU=[dict(lo=-100, hi=-90, dtc=0), dict(lo=mid - 150, hi=mid - 140, dtc=0)])


def replay_shape(args):
    """C03 on a stream set with a prescribed GCC: duties are non-negative and sum to Qh = H(top), Qc = H(bottom)."""
    case, ename = args
    emb = EMBS[ename]
    out = []
    Qh, Qc = emb.Q(case["shape"][0]), emb.Q(case["shape"][-1])
    scale = max(1.0, emb.Q(sum(s["cp"] * 100 for s in case["S"])))
    try:
        z = build_zone(case, emb)
        _OP["di"](z)
    except Exception as e:
        return [("C14.di_raises", dict(exc=repr(e)[:300], emb=ename))]
    t = z.targets["Z/Direct Integration"]
    hq = [float(u.heat_flow) for u in t.hot_utilities]
    cq = [float(u.heat_flow) for u in t.cold_utilities]
    if not close(float(t.hot_utility_target), Qh, scale) or not close(float(t.cold_utility_target), Qc, scale):
        out.append(("C01.targets", dict(got=[float(t.hot_utility_target), float(t.cold_utility_target)], expected=[Qh, Qc], emb=ename)))
    if not close(sum(hq), Qh, scale):
        out.append(("C03.sum_hot", dict(got=sum(hq), expected=Qh, duties=hq, emb=ename)))
    if not close(sum(cq), Qc, scale):
        out.append(("C03.sum_cold", dict(got=sum(cq), expected=Qc, duties=cq, emb=ename)))
    if min(hq + cq + [0.0]) < -1e-6 * scale:
        out.append(("C03.duty_nonnegative", dict(duties=hq + cq, emb=ename)))
    return out


def shape_leg(run, tier):
    """Stream sets with MANY pockets (three on one side need seven table rows; <= 3 lattice streams give at most one or two): the
    GCC shapes of spec/Pockets.tla, model checked there, are turned into the stream sets that have them."""
    from . import pockets
    res = pockets.tlc_cases("many7" if tier == "quick" else "many8")
    run.add_tlc(res, "Pockets many-pocket shapes")
    if res.violated:
        run.machinery_errors.append(f"Leg M: spec/Pockets.tla violates {res.violated} (many-pocket shapes):\n{res.error_trace[:1500]}")
        return
    shapes = sorted(tuple(c["shape"]) for c in res.cases if min(c["shape"]) == 0 and len(set(c["shape"])) > 1)
    jobs = [(shape_case(sh), (E0.name, E1.name, E2.name)[(i + seed()) % 3]) for i, sh in enumerate(shapes)]
    with Pool(16, initializer=_init) as pool:
        for (case, ename), out in zip(jobs, pool.imap(replay_shape, jobs, chunksize=32)):
            run.cov["evaluations"] += 1
            run.cov["traces_validated_against_impl"] += 1
            for clause, d in out:
                if clause.startswith("C03."):
                    run.violation(clause, case, dict(d, level="shape"))
    run.notes["shape_leg"] = dict(shapes=len(shapes))


def kf_glide(v, f):
    """KF-C04-glide: some utility's glide strictly contains a stream breakpoint (TLC tags the case)."""
    return bool(v.case.get("kfGlide")) and v.clause.startswith("C04.feasible")


def kf_cu_sign(v, f):
    """KF-C03-cold-utility-contribution: the request holds an active cold utility with a contribution d > 0 whose level T satisfies
    T - d <= (coldest shifted hot temperature) < T + d: the library's sufficiency test subtracts the contribution where the shifted
    level adds it, so no default cold utility is created although the supplied one cannot reach the coldest hot streams"""
    case = v.case
    hot = [s["lo"] - s["dtc"] for s in case.get("S", []) if s["k"] == "H"]
    if not hot:
        return False
    cu_tmax = min(hot)
    for u in case.get("ladder", []):
        if u["type"] in ("Cold", "Both") and u.get("active", True) and u.get("dtc", 0) > 0:
            top = max(u["ts"], u["tt"]) + (10 if u["ts"] == u["tt"] else 0)        # isothermal: the phase-change glide of 10 units is added
            if top - u["dtc"] <= cu_tmax < top + u["dtc"]:
                return True
    return False


def kf_order(v, f):
    """KF-C04-contribution-order: real and shifted supply orders of the utilities differ (TLC tags the case)."""
    return bool(v.case.get("kfOrder")) and v.clause == "C04.lowest_grade_first"


def mutant_selftest(run):
    res = {}
    for sw, val in (("ColdWraps", True), ("NoBreak", True)):
        r = tlc_cases("tiny", overrides={sw: val}, emit=False)
        res[f"{sw}"] = r.violated
    if res["ColdWraps"] is None:
        run.machinery_errors.append("mutant model ColdWraps not rejected")
    r = tlc_cases("tiny", overrides={"BruteForce": True}, emit=False)
    res["closed_form_vs_brute_force"] = r.violated or "holds"
    if r.violated:
        run.machinery_errors.append("closed-form optimum not maximal by brute force: " + r.error_trace[:800])
    r = tlc_cases("tiny", overrides={"HotOpts": {0, 7}, "ColdOpts": {0, 7}}, emit=False, invs=["C04_OptimalStrict"])
    res["contribution_order_class_nonempty"] = r.violated
    if not r.violated:
        run.machinery_errors.append("known-finding class kfOrder is empty: C04_OptimalStrict holds on ladder option 7")
    r = tlc_cases("tiny", overrides={"PairSameRow": True}, emit=False)
    res["corrected_bound_feasible_everywhere"] = r.violated or "holds"
    run.notes["mutant_models"] = res


def check(prop, tier, run: Run, replay_case=None):
    run.register_matcher("kf_glide", kf_glide)
    run.register_matcher("kf_order", kf_order)
    pre = prop + "."
    if replay_case is not None:
        if replay_case.get("leg") == "T":
            from . import trace_pipeline
            return trace_pipeline.replay(run, replay_case)
        _init()
        if replay_case["detail"].get("level") == "shape":
            out = replay_shape((replay_case["case"], replay_case["detail"]["emb"]))
        elif replay_case["detail"].get("variant") == "bulk":
            out, _ = replay_bulk((replay_case["case"], replay_case["detail"]["emb"]))
        else:
            out, _ = replay((replay_case["case"], replay_case["detail"]["emb"]))
        for clause, d in out:
            if clause.startswith(pre):
                run.violation(clause, replay_case["case"], d)
        run.cov["evaluations"] = 1
        return
    run.assumptions += ["lattice streams and utility levels; utilities given with zero contribution (shifted = real levels)",
                        "the pocket-free GCC fed to the specification's allocation is the definitional minorant (the sweep is C07's machine)"]
    names = ["quick"] if tier == "quick" else ["quick", "deepA", "deepB"]
    nontriv = set()
    for name in names:
        # ladders 6 (two utilities at one level) and 7 (contribution order) are about C04's optimality clause; C03's quick tier skips them
        ov = dict(HotOpts=CFG[name]["HotOpts"] - {6, 7, 8}, ColdOpts=CFG[name]["ColdOpts"] - {6, 7, 8}) if (prop == "C03" and tier == "quick") else None
        res = tlc_cases(name, overrides=ov)
        run.add_tlc(res, name)
        if res.violated:
            run.machinery_errors.append(f"Leg M: spec/Utility.tla violates {res.violated} ({name}):\n{res.error_trace[:1500]}")
            continue
        run.cov["exhaustive"] = True
        cases = sorted(res.cases, key=lambda c: json.dumps([c["S"], c["ho"], c["co"]], sort_keys=True))
        run.notes.setdefault("kf_class_sizes", {})[name] = dict(
            cases=len(cases), in_glide_class=sum(1 for c in cases if c["kfGlide"]),
            infeasible_in_spec=sum(1 for c in cases if not c["feasible"]))
        embs = [E1.name, E2.name, E0.name]
        # ladder 8 puts a utility's target level exactly on a breakpoint (a possible pinch): the optimum is discontinuous there
        # (a target an ulp beyond the pinch can carry nothing), so those cases are replayed only under the embeddings that
        # represent the lattice exactly (E1, E0); under the noisy embedding the tie would be decided by rounding
        jobs = [(c, (embs[(i + seed()) % 3] if 8 not in (c["ho"], c["co"]) else (E1.name, E0.name)[(i + seed()) % 2])) for i, c in enumerate(cases)]
        with Pool(16, initializer=_init) as pool:
            for (case, ename), (out, flags) in zip(jobs, pool.imap(replay, jobs, chunksize=64)):
                run.cov["evaluations"] += 1
                run.cov["traces_validated_against_impl"] += 1
                for clause, d in out:
                    if clause.startswith(pre) or (clause.startswith("C14.") and prop == "C03"):
                        run.violation(clause if clause.startswith(pre) else prop + "." + clause, case, d)
                if flags.get("drift"):
                    run.drift.append(flags["drift"])
                if flags.get("multi") or flags.get("pockets"):
                    nontriv.add(json.dumps([case["S"], case["ho"], case["co"]]))
        if prop == "C04":
            # the same isothermal cases next to a duty a million times larger (exact embeddings)
            from ..common import sample as _sample
            iso = [c for c in cases if c["isothermal"] and c["ho"] not in (5, 7) and c["co"] not in (5, 7)]
            bj = [(c, (E1.name, E0.name)[i % 2]) for i, c in enumerate(_sample(iso, 6000 if tier == "quick" else 60000, 31))]
            nb = 0
            with Pool(16, initializer=_init) as pool:
                for (case, ename), (out, ran) in zip(bj, pool.imap(replay_bulk, bj, chunksize=64)):
                    if ran:
                        nb += 1
                        run.cov["evaluations"] += 1
                        run.cov["traces_validated_against_impl"] += 1
                    for clause, d in out:
                        if clause.startswith(pre):
                            run.violation(clause, case, d)
            run.notes.setdefault("bulk_variant", {})[name] = nb
        run.cov["samples"] += [{"config": name, "streams": c["S"], "hot_ladder": c["HU"], "cold_ladder": c["CU"],
                                "Qh": c["Qh"], "Qc": c["Qc"], "hot_duties": c["hotQ"], "cold_duties": c["coldQ"]}
                               for c in cases[len(cases) // 3:: max(1, len(cases) // 3)][:2]]
    run.cov["distinct_nontrivial"] = len(nontriv)
    run.cov["rule"] = ("every multiset of <= MaxStreams lattice streams x every hot/cold ladder option enumerated by TLC; non-trivial = "
                       "more than one utility on a side carries duty, or the GCC has a pocket; distinct by (streams, ladders)")
    from . import trace_pipeline
    trace_pipeline.leg_t(run, prop, tier)
    if prop == "C03":
        shape_leg(run, tier)
        from . import corpus
        corpus.leg_t(run, prop, tier)
        # last sentence of C03: the total-process record lists, utility by utility, the sum of its zones' duties -- judged by
        # TraceSite on SiteGen problems (the clause is shared with C09)
        from . import site
        ren = {"C09.total_process_is_sum_of_zones": "C03.total_process_lists_zone_sums"}
        run.register_matcher("kf_cu_sign", kf_cu_sign)
        from . import defaults
        defaults.check_part(run, tier)
        site.site_leg(run, tier, ["quick2", "near", "cusign"] if tier == "quick" else ["quick2", "near", "cusign", "deep3"],
                      lambda c: ren.get(c, c if c.startswith("C03.") else None))
    if prop == "C04":
        # through the service: requests whose utilities carry a declared duty, switched-off utilities, Both headers (SiteGen ladders);
        # the end values of the utility GCC (duty sums) may not exceed those of the process GCC (seed C04f)
        from . import site
        site.site_leg(run, tier, ["quick2"], lambda c: c if c.startswith("C04.") else None)
    if tier == "thorough":
        mutant_selftest(run)
