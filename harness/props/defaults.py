"""C03, mechanism level: the default-utility decision of data preparation (spec/DefaultUtility.tla).

Leg M  TLC checks the loop transcribed from _complete_utility_data (one utility per step) against the definitional
       "no supplied utility reaches the extreme shifted temperature" on every pair of streams x request ladder
Leg R  exported cases are replayed into _find_extreme_process_temperatures / _complete_utility_data /
       _add_default_utilities and judged against the definitional decisions TLC exported
"""
from __future__ import annotations

import shutil
import tempfile
from pathlib import Path

from ..common import Run, sample
from ..tlc import run_tlc, write_cfg

CONSTS = dict(Temps={100, 200, 300}, StreamDTCs={0, 50}, Levels={50, 150, 350}, UtilDTCs={0, 100}, MaxUtils=2, DtCont=50, DtPhase=10,
              ColdSignAsCoded=True, HotSignFlipped=False, DoEmit=False)
INVS = ["DU_Decisions", "DU_Covered", "DU_NoSuperfluousDefault"]
B = 0.1          # kelvin per lattice unit


def _tlc(consts, invs, workers=16):
    tmp = Path(tempfile.mkdtemp(prefix="tlccfg_"))
    try:
        cfg = tmp / "mc.cfg"
        write_cfg(cfg, spec="Spec", constants=consts, invariants=invs)
        return run_tlc("DefaultUtility.tla", cfg, workers=workers, xmx="6g")
    finally:
        shutil.rmtree(tmp, ignore_errors=True)


def kf_case(case):
    """the site-leg shape of a case (S with k/lo/hi/dtc, ladder with type/ts/tt/dtc/active), so that utility.kf_cu_sign applies"""
    return dict(S=case["S"], ladder=case["ladder"], lo="DefaultUtility")


def check_part(run: Run, tier: str):
    from OpenPinch.analysis import data_preparation as dp
    from OpenPinch.classes.stream import Stream
    from OpenPinch.lib.config import Configuration
    from OpenPinch.lib.schema import UtilitySchema
    full = _tlc(dict(CONSTS), INVS)
    run.add_tlc(full, "DefaultUtility (<= 2 utilities)")
    if full.violated:
        run.machinery_errors.append(f"spec/DefaultUtility.tla violates {full.violated}")
        return
    exp = _tlc(dict(CONSTS, MaxUtils=1, DoEmit=True) if tier == "quick" else dict(CONSTS, Levels={50, 150}, DoEmit=True), INVS + ["EmitCase"])
    run.add_tlc(exp, "DefaultUtility export")
    cases = exp.cases if tier == "quick" else sample(exp.cases, 40000, 31)
    cfg = Configuration()
    cfg.DT_CONT, cfg.DT_PHASE_CHANGE = B * CONSTS["DtCont"], B * CONSTS["DtPhase"]
    n_kf = 0
    for case in cases:
        run.cov["evaluations"] += 1
        run.cov["traces_validated_against_impl"] += 1
        hot, cold = [], []
        for i, s in enumerate(case["S"]):
            ts, tt = (s["hi"], s["lo"]) if s["k"] == "H" else (s["lo"], s["hi"])
            (hot if s["k"] == "H" else cold).append(Stream(name=f"S{i}", t_supply=B * ts, t_target=B * tt, heat_flow=100.0, dt_cont=B * s["dtc"], htc=1.0))
        utils = [UtilitySchema.model_validate(dict(name=f"U{j}", type=u["type"], t_supply=B * u["ts"], t_target=B * u["tt"], heat_flow=0.0,
                                                   dt_cont=B * u["dtc"], htc=1.0, price=1.0, active=u["active"])) for j, u in enumerate(case["ladder"])]
        c = kf_case(case)
        try:
            hu_min, cu_max = dp._find_extreme_process_temperatures(hot, cold)
            done, add_hu, add_cu = dp._complete_utility_data(utils, cfg, hu_min, cu_max)
            final = dp._add_default_utilities(list(done), cfg, add_hu, add_cu, hu_min, cu_max)
        except Exception as e:
            run.violation("C03.default_utility_raises", c, dict(exc=repr(e)[:200])); continue
        if cold and abs(hu_min - B * case["huTmin"]) > 1e-9 or hot and abs(cu_max - B * case["cuTmax"]) > 1e-9:
            run.violation("C03.default_utility_extreme_temperatures", c, dict(got=[hu_min, cu_max], expected=[B * case["huTmin"], B * case["cuTmax"]]))
        if bool(add_hu) != case["needHU"]:
            run.violation("C03.default_hot_utility_decision", c, dict(got=bool(add_hu), needed=case["needHU"]))
        if bool(add_cu) != case["needCU"]:
            n_kf += bool(case["kf"])
            run.violation("C03.sums.default_cold_utility_decision", c, dict(got=bool(add_cu), needed=case["needCU"], spec_says_known=case["kf"]))
        if len(final) != len(utils) + int(bool(add_hu)) + int(bool(add_cu)):
            run.violation("C03.default_utilities_added_as_decided", c, dict(n=len(final)))
        # a default utility lies wholly beyond the extreme shifted temperature, glide pointing outwards
        for u in final[len(utils):]:
            lo_, hi_ = min(u.t_supply, u.t_target), max(u.t_supply, u.t_target)
            ok = (lo_ - u.dt_cont >= hu_min - 1e-9 and u.t_supply > u.t_target) if u.type == "Hot" else (hi_ + u.dt_cont <= cu_max + 1e-9 and u.t_supply < u.t_target)
            if not ok:
                run.violation("C03.default_utility_reaches_the_extreme_temperature", c, dict(type=u.type, t_supply=u.t_supply, t_target=u.t_target))
    run.notes["default_utility"] = dict(model_checked_inputs=full.distinct, replayed=len(cases), in_known_class=n_kf)
    # self-tests: with the code's sign the strict statement is violated, with the corrected sign it holds; the hot-side twin is rejected
    s1 = _tlc(dict(CONSTS, MaxUtils=1), ["DU_Strict"])
    s2 = _tlc(dict(CONSTS, MaxUtils=1, ColdSignAsCoded=False), ["DU_Strict", "DU_Covered"])
    run.add_tlc(s1, "DU_Strict, code's sign (must be violated)"); run.add_tlc(s2, "DU_Strict, corrected sign (must hold)")
    if not s1.violated:
        run.machinery_errors.append("DU_Strict holds with the code's sign: KF-C03-cold-utility-contribution is empty in the model")
    if s2.violated:
        run.machinery_errors.append(f"DefaultUtility.tla with the corrected sign violates {s2.violated}")
    if tier != "quick":
        m = _tlc(dict(CONSTS, MaxUtils=1, HotSignFlipped=True), INVS)
        run.add_tlc(m, "mutant HotSignFlipped")
        run.notes.setdefault("mutants", {})["HotSignFlipped"] = m.violated
        if not m.violated:
            run.machinery_errors.append("mutant HotSignFlipped of DefaultUtility.tla not rejected")
