"""C11 (analysis is a pure function of its input) and C16 (all input channels describe the same problem).

Leg M  spec/ServiceHistory.tla: every history of service calls (dict / value-with-unit dict / fresh model / reused
       model) and wrapper operations (load from any channel, target, export) up to MaxOps; spec/SheetNames.tla:
       every sequence of sheet-name allocations
Leg R  TLC-simulated histories are replayed in ONE interpreter per worker (state carried between histories is part
       of the point); after every call the result is compared with the fresh-process digest of the problem, the
       caller's input object, all earlier results and the library's module-level state with their snapshots;
       every SheetNames behaviour is replayed on the real _unique_sheet_name
"""
from __future__ import annotations

import copy
import json
import os
import shutil
import subprocess
import sys
import tempfile
import time
import types
from multiprocessing import Pool
from pathlib import Path

from ..common import Run, repo_import, seed, REPO
from ..tlc import run_tlc, write_cfg, MachineryError

BASE = dict(SharedGraphDefault=False, MutatesModel=False, LoadKeepsCache=False, MutatesNested=False)
CHANNELS = ["model", "json", "csvdir", "csvpair", "xlsx", "units_json"]
INVS = ["C11_Pure", "C11_InputUnchanged", "C11_NoModuleState", "C16_WrapperDescribesLoaded"]
PROPS_T = ["C16_RepeatIsCached"]


def S(zone, name, ts, tt, q, dt=5.0, htc=1.0):
    return dict(zone=zone, name=name, t_supply=float(ts), t_target=float(tt), heat_flow=float(q), dt_cont=float(dt), htc=float(htc))


def U(name, typ, ts, tt, dt=5.0):
    return dict(name=name, type=typ, t_supply=float(ts), t_target=float(tt), dt_cont=float(dt), price=35.0, htc=1.0, heat_flow=0.0)


PROBLEMS = {
    1: dict(streams=[S("A", "H1", 200, 80, 1200), S("A", "C1", 60, 150, 900), S("B", "H2", 180, 40, 700, 10), S("B", "C2", 30, 120, 990, 2.5)],
            utilities=[U("LPS", "Both", 140, 140, 12.0), U("CW", "Cold", 10, 20, 12.0)], options={"DT_CONT": 12.0, "REFRIGERANTS": "ammonia,propane"}),     # non-default options (a number and a list-valued one)
    # labels of the reader's own numbered form: the workbook channel carries them as the NUMBERS 0 and 1 in the zone / name cells
    # (normalised to "Z0" / "S0", "S1" by the reader; the number 0 is a label, not an empty cell -- seeded change C16g)
    2: dict(streams=[S("Z0", "S0", 250, 50, 400), S("Z0", "S1", 120, 30, 90, 0.0)], utilities=[], options={}),
    3: dict(streams=[S("Plant/U1", "F1", 20, 180, 3200), S("Plant/U1", "F2", 150, 150, 250), S("Plant/U2", "P1", 250, 40, 3150, 7.5),
                     S("None", "NA", 200, 80, 1800)],       # text that spreadsheet tools like to read as "missing": a zone called None, a stream called NA
            utilities=[U("HPS", "Hot", 260, 260), U("HW", "Hot", 90, 70)], options={}),
}


def with_units(p):
    q = copy.deepcopy(p)
    for s in q["streams"]:
        for k, u in (("t_supply", "degC"), ("t_target", "degC"), ("heat_flow", "kW"), ("dt_cont", "degC"), ("htc", "kW/m^2/degC")):
            s[k] = {"value": s[k], "units": u}
    for s in q["utilities"]:
        for k, u in (("t_supply", "degC"), ("t_target", "degC"), ("heat_flow", "kW"), ("dt_cont", "degC"), ("htc", "kW/m^2/degC"), ("price", "$/MWh")):
            s[k] = {"value": s[k], "units": u}
    return q


def digest(out, root=None):
    """Canonical, comparable content of a TargetOutput (root zone name normalised)."""
    def nm(s):
        if root and s.startswith(root + "/"):
            return "Site/" + s[len(root) + 1:]
        return s
    def val(x):
        v = getattr(x, "value", x)
        return None if v is None else round(float(v), 6)
    recs = []
    for t in out.targets:
        recs.append([nm(t.name), val(t.Qh), val(t.Qc), val(t.Qr), [[u.name, val(u.heat_flow)] for u in t.hot_utilities],
                     [[u.name, val(u.heat_flow)] for u in t.cold_utilities], val(t.temp_pinch.cold_temp), val(t.temp_pinch.hot_temp)])
    graphs = sorted(nm(k) for k in (out.graphs or {}))
    npts = sorted((nm(k), g.type, len(g.segments), sum(len(s.data_points) for s in g.segments)) for k, gs in (out.graphs or {}).items() for g in gs.graphs)
    return json.dumps(dict(targets=sorted(recs, key=lambda r: r[0]), graph_keys=graphs, graphs=npts), sort_keys=True)


FRESH_SNIPPET = r'''
import sys, json
sys.path.insert(0, %r); sys.path.insert(0, %r); sys.dont_write_bytecode = True
from harness.props.service_history import PROBLEMS, digest
from OpenPinch import pinch_analysis_service
import copy
p = int(sys.argv[1])
print("DIGEST" + digest(pinch_analysis_service(copy.deepcopy(PROBLEMS[p]), project_name="Site")))
'''


def fresh_digests():
    from concurrent.futures import ThreadPoolExecutor
    def one(p):
        r = subprocess.run([sys.executable, "-c", FRESH_SNIPPET % (str(REPO), str(Path(__file__).resolve().parents[2])), str(p)],
                           capture_output=True, text=True, env=dict(os.environ, OPENPINCH_VERIF="1", PYTHONDONTWRITEBYTECODE="1"))
        line = [l for l in r.stdout.splitlines() if l.startswith("DIGEST")]
        if not line:
            raise MachineryError("fresh-process run failed: " + r.stderr[-800:])
        return p, line[0][6:]
    with ThreadPoolExecutor(3) as ex:
        return dict(ex.map(one, list(PROBLEMS)))


_WATCH = []


def _build_watch():
    """Mutable objects reachable from the library's module namespaces: module-level containers, mutable
    default arguments, mutable class attributes.  Built once per process; a snapshot is their repr."""
    imm = (type(None), bool, int, float, str, bytes, tuple, frozenset, type, types.FunctionType, types.ModuleType)
    for name, mod in list(sys.modules.items()):
        if not name.startswith("OpenPinch") or name.endswith("_verif") or mod is None:
            continue
        for k, v in list(vars(mod).items()):
            if k.startswith("__"):
                continue
            if isinstance(v, (dict, list, set)):
                _WATCH.append((f"{name}.{k}", v))
            elif isinstance(v, types.FunctionType) and (v.__module__ or "") == name:
                for j, d in enumerate((v.__defaults__ or ()) + tuple((v.__kwdefaults__ or {}).values())):
                    if not isinstance(d, imm):
                        _WATCH.append((f"{name}.{k}.default{j}", d))
            elif isinstance(v, type) and (v.__module__ or "") == name:
                for a, b in list(vars(v).items()):
                    if not a.startswith("__") and not callable(b) and not isinstance(b, imm + (property, staticmethod, classmethod)):
                        _WATCH.append((f"{name}.{k}.{a}", b))


def module_state():
    if not _WATCH:
        _build_watch()
    st = {}
    for key, obj in _WATCH:
        try:
            st[key] = repr(obj) if not hasattr(obj, "_streams") else repr(list(obj._streams))
        except Exception as e:  # pragma: no cover
            st[key] = "unrepr:" + repr(e)
    return st


_W = {}


def _init(fresh):
    repo_import()
    from OpenPinch import pinch_analysis_service
    from OpenPinch.classes.pinch_problem import PinchProblem
    from OpenPinch.lib.schema import TargetInput
    _W.update(service=pinch_analysis_service, PinchProblem=PinchProblem, TargetInput=TargetInput, fresh=fresh,
              models={p: TargetInput.model_validate(copy.deepcopy(PROBLEMS[p])) for p in PROBLEMS})
    _W["model_snap"] = {p: m.model_dump_json() for p, m in _W["models"].items()}
    # the caller's own stream / utility schema objects, handed over inside a plain dictionary and reused across calls
    from OpenPinch.lib.schema import StreamSchema, UtilitySchema
    _W["mk_nested"] = lambda p: dict(copy.deepcopy({k: v for k, v in PROBLEMS[p].items() if k not in ("streams", "utilities")}),
                                     streams=[StreamSchema.model_validate(copy.deepcopy(x)) for x in PROBLEMS[p]["streams"]],
                                     utilities=[UtilitySchema.model_validate(copy.deepcopy(x)) for x in PROBLEMS[p]["utilities"]])
    _W["nested_sig"] = lambda d: json.dumps([o.model_dump_json() for o in d["streams"] + d["utilities"]] + [repr(sorted(k for k in d))])
    _W["nested"] = {p: _W["mk_nested"](p) for p in PROBLEMS}
    _W["nested_snap"] = {p: _W["nested_sig"](d) for p, d in _W["nested"].items()}


def materialise(p, ch, d: Path):
    """Write problem p for channel ch under directory d; return the source to hand to PinchProblem.load."""
    import pandas as pd
    prob = PROBLEMS[p]
    if ch == "model":
        return _W["models"][p]          # the caller's own long-lived model object, reused across loads and histories
    if ch == "json":
        f = d / "Site.json"; f.write_text(json.dumps(prob)); return f
    if ch == "units_json":
        q = with_units(prob)
        if q["utilities"] and prob["utilities"][-1]["dt_cont"] == (prob.get("options") or {}).get("DT_CONT", 5.0):
            q["utilities"][-1]["dt_cont"]["value"] = None
        f = d / "Site.json"; f.write_text(json.dumps(q)); return f
    scols = ["zone", "name", "t_supply", "t_target", "heat_flow", "dt_cont", "htc"]
    sunits = ["", "", "degC", "degC", "kW", "degC", "kW/m2/degC"]
    ucols = ["name", "type", "t_supply", "t_target", "dt_cont", "price", "htc", "heat_flow"]
    uunits = ["", "", "degC", "degC", "degC", "$/MWh", "kW/m2/degC", "kW"]
    srows = [scols, sunits] + [[s[c] for c in scols] for s in prob["streams"]]
    # an optional cell left blank means "use the default": the last utility's contribution, when it equals the default
    # DT_CONT (5.0), is written as a blank cell / a null value-with-unit in the file channels (seeded change C16d)
    opt_dt = (prob.get("options") or {}).get("DT_CONT", 5.0)
    can_blank = (not prob.get("options")) or ch in ("xlsx", "units_json")      # the CSV bundle carries no options: contributions stay explicit there
    def cell(u, c):
        return None if (c == "dt_cont" and u is prob["utilities"][-1] and u["dt_cont"] == opt_dt and can_blank) else u[c]
    urows = [ucols, uunits] + [[cell(u, c) for c in ucols] for u in prob["utilities"]]
    if ch in ("csvdir", "csvpair"):
        sub = d / "Site"; sub.mkdir(exist_ok=True)
        pd.DataFrame(srows).to_csv(sub / "streams.csv", header=False, index=False)
        pd.DataFrame(urows).to_csv(sub / "utilities.csv", header=False, index=False)
        return sub if ch == "csvdir" else (sub / "streams.csv", sub / "utilities.csv")
    if ch == "xlsx":
        f = d / "Site.xlsx"
        with pd.ExcelWriter(f, engine="openpyxl") as w:
            import re
            num = lambda v: int(v[1:]) if isinstance(v, str) and re.fullmatch(r"[SZ]\d+", v) else v
            xrows = srows[:2] + [[num(r[0]), num(r[1])] + r[2:] for r in srows[2:]]
            pd.DataFrame(xrows).to_excel(w, sheet_name="Stream Data", header=False, index=False)
            pd.DataFrame(urows).to_excel(w, sheet_name="Utility Data", header=False, index=False)
            # option names as typed by hand: with stray blanks around them (seeded change C16e)
            orows = [["### Options ### ", None]] + [[f" {k} ", v] for k, v in (prob.get("options") or {}).items()] if prob.get("options") else [["key", "value"], ["", ""]]
            pd.DataFrame(orows).to_excel(w, sheet_name="Options", header=False, index=False)
        return f
    raise ValueError(ch)


def replay_history(case):
    hist = case["hist"]
    out = []
    # the hook module records every table of every call: drop its event list between histories (long-lived workers would
    # otherwise grow by gigabytes over a thorough run)
    try:
        from OpenPinch import _verif as _hooks
        _hooks.reset()
    except Exception:
        pass
    fresh = _W["fresh"]
    tmp = Path(tempfile.mkdtemp(prefix="c16_"))
    earlier = []       # (result object, digest when returned)
    wp = _W["PinchProblem"]()
    loaded = 0
    last_target = None
    try:
        for step, op in enumerate(hist, 1):
            kind = op[0]
            ms0 = module_state()
            def bad(clause, **d):
                out.append((clause, dict(d, step=step, op=op)))
            try:
                if kind.startswith("call_"):
                    p = op[1]
                    if kind == "call_dict":
                        inp = copy.deepcopy(PROBLEMS[p]); snap = copy.deepcopy(inp); same = lambda: inp == snap
                    elif kind == "call_units":
                        inp = with_units(PROBLEMS[p]); snap = copy.deepcopy(inp); same = lambda: inp == snap
                    elif kind == "call_model":
                        inp = _W["TargetInput"].model_validate(copy.deepcopy(PROBLEMS[p])); snap = inp.model_dump_json(); same = lambda: inp.model_dump_json() == snap
                    elif kind == "call_nested_reused":
                        inp = _W["nested"][p]; snap = _W["nested_snap"][p]; same = lambda: _W["nested_sig"](inp) == snap
                    else:
                        inp = _W["models"][p]; snap = inp.model_dump_json(); same = lambda: inp.model_dump_json() == snap
                    res = _W["service"](inp, project_name="Site")
                    dg = digest(res)
                    if dg != fresh[p]:
                        bad("C11.result_equals_fresh_process", got=dg[:400], expected=fresh[p][:400])
                    if not same():
                        bad("C11.input_unchanged", form=kind)
                        if kind == "call_nested_reused":
                            _W["nested"][p] = _W["mk_nested"](p)          # restore for the next call / history
                    earlier.append((res, dg))
                    last_target = None
                elif kind == "load":
                    p, ch = op[1], op[2]
                    d = tmp / f"s{step}"; d.mkdir()
                    wp.load(materialise(p, ch, d))
                    loaded = p
                    last_target = None
                elif kind == "target":
                    res = wp.target()
                    dg = digest(res, root=res.name)
                    if dg != fresh[loaded]:
                        bad("C11.wrapper_result_equals_fresh_process", got=dg[:300], expected=fresh[loaded][:300])
                        bad("C16.wrapper_result_is_loaded_problem", channel=[o for o in hist[:step] if o[0] == "load"][-1][2], got=dg[:400], expected=fresh[loaded][:400])
                    if last_target is not None and res is not last_target:
                        bad("C16.repeated_target_is_cached")
                    last_target = res
                    earlier.append((res, digest(res)))
                elif kind == "export":
                    outdir = tmp / f"x{step}"; outdir.mkdir()
                    path = wp.export_to_Excel(outdir)
                    import openpyxl
                    names = openpyxl.load_workbook(path, read_only=True).sheetnames
                    if len(set(names)) != len(names) or any(len(n) > 31 for n in names) or any(c in n for n in names for c in ':/?*\\[]'):
                        bad("C16.sheet_names", names=names)
                    if wp.results is not None:
                        dg = digest(wp.results, root=wp.results.name)
                        if dg != fresh[loaded]:
                            bad("C16.wrapper_result_is_loaded_problem", got=dg[:300], expected=fresh[loaded][:300])
                        last_target = wp.results
            except Exception as e:
                bad(("C16." if kind in ("load", "target", "export") else "C11.") + "raises", exc=repr(e)[:300])
            if kind in ("target", "export"):
                for p_, m_ in _W["models"].items():
                    if m_.model_dump_json() != _W["model_snap"][p_]:
                        bad("C11.input_unchanged", problem=p_, via="wrapper")
                        bad("C16.model_channel_left_unchanged", problem=p_)
                        _W["models"][p_] = _W["TargetInput"].model_validate(copy.deepcopy(PROBLEMS[p_]))   # restore for the next history
            for r_, d_ in earlier:
                if digest(r_) != d_:
                    bad("C11.earlier_results_unchanged")
                    break
            ms1 = module_state()
            if ms0 != ms1:
                diff = [k for k in set(ms0) | set(ms1) if ms0.get(k) != ms1.get(k)]
                bad("C11.module_state_unchanged", changed=diff[:5])
    finally:
        shutil.rmtree(tmp, ignore_errors=True)
    return out


def _tlc(module, consts, invs, props=(), simulate=None, depth=None, workers=16, constraints=()):
    tmp = Path(tempfile.mkdtemp(prefix="tlccfg_"))
    try:
        cfg = tmp / "mc.cfg"
        write_cfg(cfg, spec="Spec", constants=consts, invariants=invs, properties=props, constraints=constraints)
        return run_tlc(module, cfg, workers=workers, xmx="8g", simulate=simulate, depth=depth, seed=seed() if simulate else None)
    finally:
        shutil.rmtree(tmp, ignore_errors=True)


# ---------------------------------------------------------------------------
# unbounded histories: inductive invariant of spec/ServiceHistoryInd.tla discharged by Apalache; that ServiceHistoryInd is the
# same machine as ServiceHistory (minus the history variable) is a refinement checked by TLC (spec/ServiceHistoryRef.tla)
MC_TEMPLATE = (Path(__file__).resolve().parents[2] / "spec" / "apalache" / "MC_ServiceHistoryInd.tla")


def _apalache(switches, init, length):
    import subprocess
    tmp = Path(tempfile.mkdtemp(prefix="apa_"))
    try:
        shutil.copy(MC_TEMPLATE.parents[1] / "ServiceHistoryInd.tla", tmp / "ServiceHistoryInd.tla")
        txt = MC_TEMPLATE.read_text()
        for k, v in switches.items():
            txt = txt.replace(f"{k} == FALSE", f"{k} == {'TRUE' if v else 'FALSE'}")
        (tmp / "MC_ServiceHistoryInd.tla").write_text(txt)
        t0 = time.time()
        r = subprocess.run(["apalache-mc", "check", f"--init={init}", "--inv=IndInv", f"--length={length}", f"--out-dir={tmp / 'out'}",
                            "MC_ServiceHistoryInd.tla"], cwd=tmp, capture_output=True, text=True, timeout=900)
        out = r.stdout + r.stderr
        verdict = "NoError" if "The outcome is: NoError" in out else "Error" if "The outcome is: Error" in out else "failed"
        return verdict, round(time.time() - t0, 1), out[-600:]
    finally:
        shutil.rmtree(tmp, ignore_errors=True)


def inductive_leg(run: Run, tier, consts):
    ref = _tlc("ServiceHistoryRef.tla", dict(consts, DoEmit=False, MaxOps=3), ["IndInvHolds"], ["RefinesInd"])
    run.add_tlc(ref, "ServiceHistoryRef (refinement of ServiceHistoryInd)")
    if ref.violated:
        run.machinery_errors.append(f"ServiceHistory does not refine ServiceHistoryInd: {ref.violated}\n{ref.error_trace[:800]}")
    notes = {}
    for label, init, length in (("base", "Init", 0), ("step", "IndInit", 1)):
        v, secs, tail = _apalache({}, init, length)
        notes[label] = dict(outcome=v, seconds=secs)
        if v != "NoError":
            run.machinery_errors.append(f"Apalache did not discharge the inductive invariant ({label}): {v}\n{tail}")
    if tier == "thorough":
        for sw in ("SharedGraphDefault", "MutatesModel", "LoadKeepsCache", "MutatesNested"):
            v, secs, tail = _apalache({sw: True}, "IndInit", 1)
            notes["mutant " + sw] = dict(outcome=v, seconds=secs)
            if v != "Error":
                run.machinery_errors.append(f"Apalache: induction step still holds with mutant {sw} ({v})")
    run.notes["inductive_invariant_apalache"] = notes
    run.assumptions.append("design level, any number of calls: IndInv of spec/ServiceHistoryInd.tla is inductive (Apalache 0.58, 3 problems, 7 channels); "
                           "binding to the code remains the bounded replay below")


def sheetnames_leg(run: Run, tier):
    repo_import()
    from OpenPinch.utils.export import _unique_sheet_name
    for label, consts in (("alloc4", dict(MaxLen=31, MaxAllocs=4, NameIds={1, 2, 3, 4, 5, 6, 7, 8})),
                          ("repeat13", dict(MaxLen=31, MaxAllocs=13, NameIds={1, 2}))):
        res = _tlc("SheetNames.tla", dict(consts, DoEmit=True, TrimOnce=False),
                   ["C16_Length", "C16_NoForbidden", "C16_NonEmpty", "EmitCase"], ["C16_Unique"])
        run.add_tlc(res, "SheetNames/" + label)
        if res.violated:
            run.machinery_errors.append(f"spec/SheetNames.tla violates {res.violated}")
            continue
        for case in res.cases:
            used = set()
            names = {i + 1: "".join(n) for i, n in enumerate(case["names"])}
            got = []
            for i in case["hist"]:
                before = set(used)
                nm = _unique_sheet_name(names[i], used)
                got.append(nm)
                if nm in before or len(nm) > 31 or len(nm) == 0 or any(c in nm for c in ':/?*\\[]'):
                    run.violation("C16.sheet_names", case, dict(allocated=got, name=nm))
                    break
            exp = {"".join(u) for u in case["used"]}
            if set(got) != exp:
                run.drift.append(f"sheet names differ from spec: {sorted(got)} vs {sorted(exp)}")
            run.cov["evaluations"] += 1
            run.cov["traces_validated_against_impl"] += 1
    if tier == "thorough":
        r = _tlc("SheetNames.tla", dict(MaxLen=31, MaxAllocs=13, NameIds={1, 2}, DoEmit=False, TrimOnce=True), ["C16_Length"])
        run.notes.setdefault("mutant_models", {})["TrimOnce"] = r.violated
        if not r.violated:
            run.machinery_errors.append("mutant model TrimOnce not rejected")


def check(prop, tier, run: Run, replay_case=None):
    pre = prop + "."
    fresh = fresh_digests()
    if replay_case is not None:
        _init(fresh)
        for clause, d in replay_history(replay_case["case"]):
            if clause.startswith(pre):
                run.violation(clause, replay_case["case"], d)
        run.cov["evaluations"] = 1
        return
    run.assumptions += ["three fixed problems (two-zone site with a generation/use utility, hot-only zone, nested labels with a latent stream) with default options, so every channel can express them",
                        "Fresh(p) digests come from one fresh interpreter per problem; digests cover all records, pinch temperatures, utility duties, graph keys and graph point counts"]
    chans = set('"%s"' % c for c in CHANNELS)
    consts = dict(BASE, Probs={1, 2, 3}, Channels=chans, MaxOps=4 if tier == "quick" else 5, EnableCalls=True, EnableWrapper=True)
    res = _tlc("ServiceHistory.tla", dict(consts, DoEmit=False), INVS, PROPS_T)
    run.add_tlc(res, "ServiceHistory/all")
    if res.violated:
        run.machinery_errors.append(f"spec/ServiceHistory.tla violates {res.violated}:\n{res.error_trace[:1000]}")
    run.cov["exhaustive"] = True
    inductive_leg(run, tier, consts)
    cases = []
    if prop == "C11":
        # every history of 3 (quick) / 4 service calls over 3 problems x 5 input forms, all replayed
        c1 = dict(consts, EnableWrapper=False, MaxOps=3 if tier == "quick" else 4, DoEmit=True)
        r1 = _tlc("ServiceHistory.tla", c1, INVS + ["EmitCase"], (), workers=8)
        run.add_tlc(r1, "ServiceHistory/calls")
        cases += r1.cases if tier == "quick" else __import__("harness.common", fromlist=["sample"]).sample(r1.cases, len(r1.cases) // 10, 11)
    # every wrapper history (load from any channel / target / export, never two loads in a row), all replayed
    c2 = dict(consts, Probs={1, 2}, EnableCalls=False, MaxOps=4, DoEmit=True)
    if tier == "quick":
        c2["Channels"] = set('"%s"' % c for c in ("model", "json", "csvpair", "xlsx"))   # csvdir / units_json: thorough tier and simulated histories
    r2 = _tlc("ServiceHistory.tla", c2, INVS + ["EmitCase"], (), workers=8, constraints=["NoDoubleLoad"])
    run.add_tlc(r2, "ServiceHistory/wrapper")
    wc = [c for c in r2.cases if c["hist"][0][0] == "load"]
    stale_shape = [c for c in wc if sum(1 for h in c["hist"] if h[0] == "load") == 2 and c["hist"][1][0] in ("target", "export")]
    cases += wc if prop == "C16" or tier != "quick" else stale_shape
    # plus mixed histories drawn by TLC's simulator
    n = 40 if tier == "quick" else 600
    sim = _tlc("ServiceHistory.tla", dict(consts, DoEmit=True), INVS + ["EmitCase"], (), simulate=f"num={n}", depth=consts["MaxOps"] + 1, workers=4)
    cases += sim.cases
    cases.sort(key=lambda c: json.dumps(c["hist"]))
    # every worker replays many histories in ONE interpreter: state leaking between histories is detected too
    with Pool(16, initializer=_init, initargs=(fresh,)) as pool:
        results = pool.map(replay_history, cases, chunksize=max(1, len(cases) // 48))
    nontriv = set()
    for case, out in zip(cases, results):
        run.cov["evaluations"] += len(case["hist"])
        run.cov["traces_validated_against_impl"] += 1
        for clause, d in out:
            if clause.startswith(pre):
                run.violation(clause, case, d)
        kinds = {h[0] for h in case["hist"]}
        if len(kinds) > 1:
            nontriv.add(json.dumps(case["hist"]))
    run.cov["samples"] += [{"history": c["hist"]} for c in cases[:3]]
    if prop == "C16":
        sheetnames_leg(run, tier)
    if tier == "thorough":
        mm = run.notes.setdefault("mutant_models", {})
        for sw in ("SharedGraphDefault", "MutatesModel", "LoadKeepsCache", "MutatesNested"):
            r = _tlc("ServiceHistory.tla", dict(consts, DoEmit=False, MaxOps=4, **{sw: True}), INVS, PROPS_T)
            mm[sw] = r.violated
            if not r.violated:
                run.machinery_errors.append(f"mutant model {sw} not rejected")
    run.cov["distinct_nontrivial"] = len(nontriv)
    run.cov["rule"] = ("ServiceHistory.tla explored exhaustively (all histories <= MaxOps over 3 problems x 4 input forms x 6 load channels); "
                       "TLC-simulated histories replayed in long-lived interpreters; non-trivial = a history mixing at least two kinds of operation; distinct by history")
