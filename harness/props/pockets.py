"""C07: the pocket-free GCC is the greatest monotone curve under the GCC.

Leg M  spec/Pockets.tla: the sweep as a multi-step machine over every GCC shape (TLC, exhaustive)
Leg R  every shape replayed through get_GCC_without_pockets + get_seperated_gcc_heat_load_profiles and
       compared AS FUNCTIONS with the minorant TLC computed (at table rows and all level crossings)
Leg T  pipeline traces (trace_pipeline.py): GCCs of random stream sets and of the example corpus judged by TLC
"""
from __future__ import annotations

import json
import shutil
import tempfile
from fractions import Fraction as F
from multiprocessing import Pool
from pathlib import Path

from ..common import Run, EMBS, E0, E1, E2, Emb, close, repo_import, seed
from ..tlc import run_tlc, write_cfg

BASE = dict(StalePinch=False, SkipBetween=False, ExitOffByOne=False, DoEmit=True, MinPeaks=0)
CFG = {
    "quick": dict(MinRows=2, MaxRows=6, HMax=3),
    "deep": dict(MinRows=7, MaxRows=7, HMax=4),
    "deep8": dict(MinRows=8, MaxRows=8, HMax=3),
    "tiny": dict(MinRows=2, MaxRows=5, HMax=3),
    # many pockets on one side of the pinch (three need seven rows): used by C03's shape leg as well (seeded change C03g)
    "many7": dict(MinRows=7, MaxRows=7, HMax=4, MinPeaks=3),
    "many8": dict(MinRows=8, MaxRows=9, HMax=4, MinPeaks=3),
}
INVS = ["C07_Minorant", "C07_GCCUnchanged", "C07_Ends", "C07_Profiles", "C07_RowsDescending", "EmitCase"]


def tlc_cases(name, overrides=None, emit=True, props=()):
    consts = dict(BASE); consts.update(CFG[name])
    if overrides:
        consts.update(overrides)
    consts["DoEmit"] = emit
    tmp = Path(tempfile.mkdtemp(prefix="tlccfg_"))
    try:
        cfg = tmp / "mc.cfg"
        write_cfg(cfg, spec="Spec", constants=consts, invariants=INVS, properties=props)
        return run_tlc("Pockets.tla", cfg, workers=16, xmx="8g")
    finally:
        shutil.rmtree(tmp, ignore_errors=True)


_OP = {}


def _init():
    repo_import()
    import numpy as np
    from OpenPinch.classes.problem_table import ProblemTable
    from OpenPinch.lib.enums import ProblemTableLabel as PT
    from OpenPinch.analysis.gcc_manipulation import get_GCC_without_pockets, get_seperated_gcc_heat_load_profiles
    _OP.update(np=np, ProblemTable=ProblemTable, PT=PT, nopockets=get_GCC_without_pockets,
               profiles=get_seperated_gcc_heat_load_profiles)


def fr(v):
    return float(F(v[0], v[1]))


def judge_gcc(T, H, NP, hot, cold, pts, valid, emb, scale):
    """Property predicates of C07 on real arrays.  pts = [(T, minorant, original)] in lattice units."""
    np = _OP["np"]
    out = []
    if not np.all(T[:-1] > T[1:]):
        return [("C07.rows_descending", dict(T=T.tolist()))]
    xs = np.array([emb.T(fr(p[0])) for p in pts])
    m = np.array([emb.Q(fr(p[1])) for p in pts])
    o = np.array([emb.Q(fr(p[2])) for p in pts])
    got_np = np.interp(xs[::-1], T[::-1], NP[::-1])[::-1]
    got_h = np.interp(xs[::-1], T[::-1], H[::-1])[::-1]
    e = np.abs(got_np - m)
    if np.max(e) > 1e-6 * scale:
        j = int(np.argmax(e))
        out.append(("C07.minorant_as_function", dict(T=float(xs[j]), got=float(got_np[j]), expected=float(m[j]))))
    e = np.abs(got_h - o)
    if np.max(e) > 1e-6 * scale:
        j = int(np.argmax(e))
        out.append(("C07.gcc_unchanged", dict(T=float(xs[j]), got=float(got_h[j]), expected=float(o[j]))))
    if abs(NP[0] - H[0]) > 1e-6 * scale or abs(NP[-1] - H[-1]) > 1e-6 * scale:
        out.append(("C07.ends_keep_Qh_Qc", dict(top=[float(NP[0]), float(H[0])], bottom=[float(NP[-1]), float(H[-1])])))
    if valid:
        tolq = 1e-6 * scale
        if np.any(np.diff(cold) > tolq) or np.any(np.diff(hot) > tolq):
            out.append(("C07.load_profiles_monotone", dict(cold=cold.tolist(), hot=hot.tolist())))
        if abs(cold[0] - H[0]) > tolq or abs(cold[-1]) > tolq:
            out.append(("C07.heating_profile_zero_to_Qh", dict(top=float(cold[0]), bottom=float(cold[-1]), Qh=float(H[0]))))
        if abs(hot[0]) > tolq or abs(hot[-1] + H[-1]) > tolq:
            out.append(("C07.cooling_profile_zero_to_Qc", dict(top=float(hot[0]), bottom=float(hot[-1]), Qc=float(H[-1]))))
    return out


def zero_frame(case):
    """A frame in which the first breakpoint the sweep has to insert (a pocket-closing temperature that is not a table row) is EXACTLY
    0.0 and every table row is an integer: x = p/q in lattice units -> T = -p + q * t.  None if the sweep inserts nothing.  (A value of
    exactly 0.0 is where truthiness tests go wrong; seed C07e: the closing temperature is requested as a bare scalar.)"""
    n = len(case["shape"])
    rows = {F((n - j) * 100) for j in range(n)}
    ins = [F(v[0], v[1]) for v in case["implT"] if F(v[0], v[1]) not in rows]
    if not ins:
        return None
    x = ins[(len(case["shape"]) + sum(case["shape"])) % len(ins)]
    return Emb("EZ-closing-at-0", float(-x.numerator), float(x.denominator), 1.0)


def replay(args):
    case, ename = args
    emb = zero_frame(case) if ename == "EZ" else EMBS[ename]
    np, PT = _OP["np"], _OP["PT"]
    shape = case["shape"]
    n = len(shape)
    scale = max(1.0, emb.Q(max(shape)))
    pt = _OP["ProblemTable"]({PT.T.value: [emb.T((n - j) * 100) for j in range(n)],
                              PT.H_NET.value: [emb.Q(h) for h in shape]})
    try:
        _OP["nopockets"](pt)
        pr = _OP["profiles"](pt.col[PT.H_NET_NP.value])
    except Exception as e:
        return [("C07.raises", dict(exc=repr(e)[:200], emb=ename))], {}
    T, H, NP = pt.col[PT.T.value].copy(), pt.col[PT.H_NET.value].copy(), pt.col[PT.H_NET_NP.value].copy()
    out = [(c, dict(d, emb=ename)) for c, d in
           judge_gcc(T, H, NP, pr[PT.H_NET_HOT.value], pr[PT.H_NET_COLD.value], case["pts"], case["valid"], emb, scale)]
    drift = None
    if len(T) != len(case["implT"]) or max(abs(emb.untT(float(a)) - fr(b)) for a, b in zip(T, case["implT"])) > 1e-6:
        drift = "rows of the real table differ from spec/Pockets.tla"
    return out, dict(drift=drift, inserted=len(T) - n, rows=len(T))


def mutant_selftest(run):
    res = {}
    for sw in ("StalePinch", "SkipBetween", "ExitOffByOne"):
        r = tlc_cases("tiny", overrides={sw: True}, emit=False)
        res[sw] = r.violated
        if r.violated is None:
            run.machinery_errors.append(f"mutant model {sw} not rejected")
    # liveness: under weak fairness the sweep terminates on every shape (totality of the loop with its fixed iteration count)
    r = tlc_cases("tiny", emit=False, props=["Terminates"])
    res["liveness_Terminates"] = r.violated or "holds"
    if r.violated:
        run.machinery_errors.append("Pockets.tla: sweep does not terminate: " + r.error_trace[:600])
    run.notes["mutant_models"] = res


def check(prop, tier, run: Run, replay_case=None):
    assert prop == "C07"
    if replay_case is not None:
        _init()
        if replay_case.get("leg") == "T":
            from . import trace_pipeline
            return trace_pipeline.replay(run, replay_case)
        out, _ = replay((replay_case["case"], replay_case["detail"]["emb"]))
        for clause, d in out:
            run.violation(clause, replay_case["case"], d)
        run.cov["evaluations"] = 1
        return
    run.assumptions += ["GCC shapes on an integer lattice (rows 100 units apart, H in 0..HMax); tolerance comparisons coincide with exact ones",
                        "curves are compared as piecewise-linear functions at table rows and every level crossing of the original curve"]
    names = ["quick"] if tier == "quick" else ["quick", "deep", "deep8"]
    nontriv = set()
    for name in names:
        res = tlc_cases(name)
        run.add_tlc(res, name)
        if res.violated:
            run.machinery_errors.append(f"Leg M: spec/Pockets.tla violates {res.violated} ({name}):\n{res.error_trace[:1500]}")
            continue
        run.cov["exhaustive"] = True
        cases = sorted(res.cases, key=lambda c: c["shape"])
        embs = [E1.name, E2.name, E0.name]
        jobs = [(c, e) for c in cases for e in (embs[:2] if tier == "quick" else embs)]
        jobs += [(c, "EZ") for c in cases if zero_frame(c) is not None]
        with Pool(16, initializer=_init) as pool:
            for (case, ename), (out, flags) in zip(jobs, pool.imap(replay, jobs, chunksize=128)):
                run.cov["evaluations"] += 1
                run.cov["traces_validated_against_impl"] += 1
                for clause, d in out:
                    run.violation(clause, case, d)
                if flags.get("drift"):
                    run.drift.append(flags["drift"])
                if flags.get("inserted", 0) > 0 or len(case["implT"]) > len(case["shape"]):
                    nontriv.add(tuple(case["shape"]))
        run.cov["samples"] += [{"config": name, "shape_H_top_to_bottom": c["shape"], "rows_after": len(c["implT"])}
                               for c in cases[:: max(1, len(cases) // 3)][:3]]
    run.cov["distinct_nontrivial"] = len(nontriv)
    run.cov["rule"] = ("every GCC shape of MinRows..MaxRows rows with H in 0..HMax enumerated by TLC; non-trivial = the sweep "
                       "inserted at least one closing breakpoint; distinct by shape")
    from . import trace_pipeline
    trace_pipeline.leg_t(run, prop, tier)
    if tier == "thorough":
        mutant_selftest(run)
