"""C08: inserting temperature intervals never changes any curve.

Leg M  spec/ProblemTable.tla: all small tables x all histories of insertion requests (TLC, exhaustive)
Leg R  every call TLC explored is replayed on a real ProblemTable under affine embeddings; the real
       result is judged by the property predicates and compared with the specification's table (drift)
Leg T  insert_temperature_interval calls recorded inside the pipeline (hook) are judged by TLC
       (harness/props/trace_table.py, thorough tier and quick sample)
"""
from __future__ import annotations

import json
import math
import random
import shutil
import tempfile
from fractions import Fraction as F
from multiprocessing import Pool
from pathlib import Path

from ..common import Run, EMBS, E0, E1, E2, Emb, close, repo_import, seed
from ..tlc import run_tlc, write_cfg, MachineryError

BASE = dict(MidDTBelow=False, BottomAsc=False, InterpFromTop=False, DoEmit=True)
CFG = {
    "quick": dict(RowTemps={100, 200, 300, 400}, MaxRows=4, CPVals={0, 1, 2},
                  ReqTemps={40, 80, 140, 230, 270, 300, 450, 520}, MaxReq=2, MaxReq2=1, MaxCalls=2),
    "quick3": dict(RowTemps={100, 200, 300}, MaxRows=3, CPVals={1, 2},
                   ReqTemps={40, 80, 140, 230, 270, 300, 450, 520}, MaxReq=3, MaxReq2=1, MaxCalls=1),
    "deep1": dict(RowTemps={100, 200, 300, 400}, MaxRows=4, CPVals={0, 1, 2},
                  ReqTemps={40, 80, 140, 230, 270, 300, 450, 520}, MaxReq=3, MaxReq2=1, MaxCalls=1),
    "deep2": dict(RowTemps={100, 200, 300, 400, 500}, MaxRows=3, CPVals={1, 2},
                  ReqTemps={40, 80, 140, 230, 270, 300, 550, 620}, MaxReq=2, MaxReq2=1, MaxCalls=3),
    "tiny": dict(RowTemps={100, 200, 300}, MaxRows=3, CPVals={0, 1, 2},
                 ReqTemps={40, 80, 140, 230, 270, 300, 450, 520}, MaxReq=2, MaxReq2=1, MaxCalls=1),
}
INVS = ["C08_Call", "C08_Desc", "EmitCase"]
XNAN = -999


def tlc_cases(name, overrides=None, emit=True, constraint=None):
    consts = dict(BASE); consts.update(CFG[name])
    if overrides:
        consts.update(overrides)
    consts["DoEmit"] = emit
    tmp = Path(tempfile.mkdtemp(prefix="tlccfg_"))
    try:
        cfg = tmp / "mc.cfg"
        write_cfg(cfg, spec="Spec", constants=consts, invariants=INVS)
        return run_tlc("ProblemTable.tla", cfg, workers=16, xmx="8g")
    finally:
        shutil.rmtree(tmp, ignore_errors=True)


_OP = {}


def _init():
    repo_import()
    import numpy as np
    from OpenPinch.classes.problem_table import ProblemTable
    from OpenPinch.lib.enums import ProblemTableLabel as PT
    _OP.update(np=np, ProblemTable=ProblemTable, PT=PT)


def rat(v):
    return None if v[1] == 0 else F(v[0], v[1])


def build(rows, emb: Emb):
    """Abstract rows -> real ProblemTable (all default labels; columns not modelled stay NaN)."""
    PT, np = _OP["PT"], _OP["np"]
    nan = float("nan")
    k = emb.c / emb.b

    def col(f):
        return [f(r) for r in rows]
    d = {
        PT.T.value: col(lambda r: emb.T(r["T"])),
        PT.DELTA_T.value: col(lambda r: emb.dT(r["dT"])),
        PT.CP_HOT.value: col(lambda r: k * r["cp"]),
        PT.DELTA_H_HOT.value: col(lambda r: emb.Q(r["dh"])),
        PT.H_HOT.value: col(lambda r: emb.Q(float(rat(r["H"])))),
        PT.CP_COLD.value: col(lambda r: 2 * k * r["cp"]),
        PT.DELTA_H_COLD.value: col(lambda r: 2 * emb.Q(r["dh"])),
        PT.H_COLD.value: col(lambda r: 2 * emb.Q(float(rat(r["H"]))) + 5.0),
        PT.CP_NET.value: col(lambda r: k * r["cp"]),
        PT.DELTA_H_NET.value: col(lambda r: emb.Q(r["dh"])),
        PT.H_NET.value: col(lambda r: emb.Q(float(rat(r["H"]))) + 5.0),
        PT.H_NET_NP.value: col(lambda r: nan if rat(r["G"]) is None else emb.Q(float(rat(r["G"])))),
        PT.H_NET_A.value: col(lambda r: nan if rat(r["G"]) is None else 3.0 - emb.Q(float(rat(r["G"])))),
        PT.RCP_HOT.value: col(lambda r: nan if r["X"] == XNAN else float(r["X"])),
    }
    return _OP["ProblemTable"](d)


def judge_call(before, after, req, ret, scale, tscale):
    """Property predicates of C08 on real tables (numpy matrices before/after one call)."""
    PT, np = _OP["PT"], _OP["np"]
    out = []
    ci = before.col_index
    T0, T1 = before.data[:, ci[PT.T.value]], after.data[:, ci[PT.T.value]]
    ttol = 1e-6
    if not np.all(T1[:-1] > T1[1:] + ttol):
        out.append(("C08.strictly_descending_no_duplicates", dict(T=T1.tolist())))
        return out
    if ret != len(T1) - len(T0):
        out.append(("C08.return_count", dict(ret=int(ret), added=int(len(T1) - len(T0)))))
    # every old row kept, every requested temperature present (within tol), nothing else
    for t in list(T0) + list(req):
        if not np.any(np.abs(T1 - t) <= ttol):
            out.append(("C08.temperature_missing", dict(t=float(t)))); break
    for t in T1:
        if not (np.any(np.abs(T0 - t) <= ttol) or np.any(np.abs(np.asarray(req) - t) <= ttol)):
            out.append(("C08.spurious_row", dict(t=float(t)))); break
    # curves unchanged as functions of temperature
    from OpenPinch.classes.problem_table import INTERPOLATION_KEYS
    for key in INTERPOLATION_KEYS:
        c = ci[key]
        y0, y1 = before.data[:, c], after.data[:, c]
        if np.all(np.isnan(y0)):
            if not np.all(np.isnan(y1)):
                out.append(("C08.nan_column_stays_nan", dict(col=key)))
            continue
        exp = np.interp(T1[::-1], T0[::-1], y0[::-1])[::-1]     # end value outside the old range
        if np.any(np.isnan(y1)) or np.max(np.abs(y1 - exp)) > 1e-6 * scale:
            j = int(np.nanargmax(np.abs(np.nan_to_num(y1, nan=1e300) - exp)))
            out.append(("C08.same_curve", dict(col=key, T=float(T1[j]), got=float(y1[j]), expected=float(exp[j]))))
            break
    dT = after.data[:, ci[PT.DELTA_T.value]]
    gap = T1[:-1] - T1[1:]
    if np.max(np.abs(dT[1:] - gap)) > 1e-7 * tscale:
        j = int(np.argmax(np.abs(dT[1:] - gap))) + 1
        out.append(("C08.dT_is_gap_to_row_above", dict(row=j, T=float(T1[j]), got=float(dT[j]), expected=float(gap[j - 1]))))
    for cpk, dhk in ((PT.CP_HOT.value, PT.DELTA_H_HOT.value), (PT.CP_COLD.value, PT.DELTA_H_COLD.value),
                     (PT.CP_NET.value, PT.DELTA_H_NET.value)):
        cp, dh = after.data[:, ci[cpk]], after.data[:, ci[dhk]]
        if np.all(np.isnan(cp)) and np.all(np.isnan(dh)):
            continue
        err = np.abs(dh - cp * dT)
        if np.any(np.isnan(err)) or np.max(err) > 1e-6 * scale:
            j = int(np.nanargmax(np.nan_to_num(err, nan=1e300)))
            out.append(("C08.dH_is_CP_times_dT", dict(col=dhk, row=j, got=float(dh[j]), expected=float(cp[j] * dT[j]))))
            break
    return out


def replay(args):
    case, ename, near = args
    emb = EMBS[ename]
    np, PT = _OP["np"], _OP["PT"]
    out = []
    old = case["old"]
    hmax = max([abs(float(rat(r["H"]))) for r in old] + [1.0])
    scale = max(1.0, emb.Q(2 * hmax) + 5.0)
    tscale = max(1.0, emb.b * 100)
    pt = build(old, emb)
    before = pt.copy
    rows_T = {r["T"] for r in old}
    # near: a request equal to an existing row, and every repetition of a value inside the request (anywhere: inside an
    # interval or beyond either end of the table), is moved by a fraction of the tolerance so that it is a NEAR duplicate
    req, seen_t = [], {}
    for t in case["req"]:
        k = seen_t.get(t, 0) + (1 if t in rows_T else 0)
        seen_t[t] = seen_t.get(t, 0) + 1
        req.append(emb.T(t) + (3e-7 * k if near else 0.0))
    try:
        ret = pt.insert_temperature_interval(list(req) if len(req) != 1 or near else req[0])
    except Exception as e:
        return [("C08.insert_raises", dict(exc=repr(e)[:200], emb=ename))], {}
    for clause, d in judge_call(before, pt, req, ret, scale, tscale):
        out.append((clause, dict(d, emb=ename, near=near)))
    # running-sum consistency preserved (H_HOT vs dH_HOT): the initial tables are consistent
    Hh, dh = pt.col[PT.H_HOT.value], pt.col[PT.DELTA_H_HOT.value]
    if len(Hh) > 1 and np.max(np.abs((Hh[:-1] - Hh[1:]) - dh[1:])) > 1e-6 * scale:
        out.append(("C08.cumulative_is_running_sum", dict(emb=ename)))
    # idempotence
    snap = pt.copy
    try:
        again = pt.insert_temperature_interval(list(req))
    except Exception as e:
        again = repr(e)
    if again != 0 or not np.allclose(pt.data, snap.data, equal_nan=True, rtol=0, atol=0):
        out.append(("C08.reinsertion_adds_nothing", dict(ret=str(again), emb=ename)))
    # drift against the specification's table
    drift = None
    exp = build(case["new"], emb)
    if exp.data.shape != snap.data.shape or not np.allclose(exp.data, snap.data, equal_nan=True, rtol=0, atol=1e-6 * scale):
        drift = "real table differs from spec/ProblemTable.tla Insert"
    flags = dict(drift=drift, mid=any(min(rows_T) < t < max(rows_T) and t not in rows_T for t in case["req"]),
                 top=any(t > max(rows_T) for t in case["req"]), bottom=any(t < min(rows_T) for t in case["req"]))
    return out, flags


def mutant_selftest(run: Run):
    res = {}
    for sw in ("MidDTBelow", "BottomAsc", "InterpFromTop"):
        r = tlc_cases("tiny", overrides={sw: True}, emit=False)
        res[sw] = r.violated
        if r.violated is None:
            run.machinery_errors.append(f"mutant model {sw} not rejected")
    run.notes["mutant_models"] = res


def check(prop, tier, run: Run, replay_case=None):
    assert prop == "C08"
    if replay_case is not None:
        _init()
        d = replay_case["detail"]
        if replay_case.get("leg") == "T":
            from . import trace_pipeline
            return trace_pipeline.replay(run, replay_case)
        out, _ = replay((replay_case["case"], d["emb"], d.get("near", False)))
        for clause, dd in out:
            run.violation(clause, replay_case["case"], dd)
        run.cov["evaluations"] = 1
        return
    run.assumptions += [
        "lattice tables: one representative column per column class (T/dT, CP-dH pair, curve, NaN curve, other); first row has CP 0 as in every pipeline table",
        "requests within tolerance of an existing row are exercised as exact duplicates and as +3e-7 K perturbations",
    ]
    names = ["quick", "quick3"] if tier == "quick" else ["quick", "deep1", "deep2"]
    nontriv = set()
    for name in names:
        res = tlc_cases(name)
        run.add_tlc(res, name)
        if res.violated:
            run.machinery_errors.append(f"Leg M: spec/ProblemTable.tla violates {res.violated} ({name}):\n{res.error_trace[:1500]}")
            continue
        run.cov["exhaustive"] = True
        cases = res.cases
        cases.sort(key=lambda c: json.dumps(c, sort_keys=True))
        embs = [E0.name, E1.name, E2.name]
        jobs = [(c, embs[(i + seed()) % 3], (i % 5 == 0)) for i, c in enumerate(cases)]
        if tier != "quick":
            jobs += [(c, embs[(i + 1 + seed()) % 3], False) for i, c in enumerate(cases)]
        with Pool(16, initializer=_init) as pool:
            for (case, ename, near), (out, flags) in zip(jobs, pool.imap(replay, jobs, chunksize=256)):
                run.cov["evaluations"] += 1
                run.cov["traces_validated_against_impl"] += 1
                for clause, d in out:
                    run.violation(clause, case, d)
                if flags.get("drift"):
                    run.drift.append(flags["drift"])
                if case["n"] > 0:
                    nontriv.add(json.dumps([case["old"], sorted(set(case["req"]))]))
        run.cov["samples"] += [{"config": name, "table_T": [r["T"] for r in c["old"]], "request": c["req"], "added": c["n"],
                                "depth": c["depth"]} for c in cases[:: max(1, len(cases) // 3)][:3]]
    run.cov["distinct_nontrivial"] = len(nontriv)
    run.cov["rule"] = ("every table of 2..MaxRows rows x every request sequence (unsorted, duplicates) x every history of <= MaxCalls "
                       "calls, enumerated by TLC; non-trivial = the call added at least one row; distinct by (table before, request set)")
    from . import trace_pipeline
    trace_pipeline.leg_t(run, prop, tier)
    if tier == "thorough":
        mutant_selftest(run)
